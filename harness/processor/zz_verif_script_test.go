//go:build verif

package processor

// Scripted (corpus) histories: the minimal histories on which a property of the processor group is known to be
// delicate.  They run before the generated ones on every run, against the real handlers, exactly like generated ones.

import (
	ethcommon "github.com/ethereum/go-ethereum/common"
	"context"
	"encoding/hex"
	"encoding/json"
	"fmt"
	"os"
	"testing"
	"time"

	"github.com/alephium/wormhole-fork/node/pkg/common"
	"github.com/alephium/wormhole-fork/node/pkg/db"
	gossipv1 "github.com/alephium/wormhole-fork/node/pkg/proto/gossip/v1"
	"github.com/alephium/wormhole-fork/node/pkg/vaa"
	"github.com/ethereum/go-ethereum/crypto"
)

func hexDecode(s string) ([]byte, error) { return hex.DecodeString(s) }

type vScript struct {
	name string
	run  func(dr *vDriver, w *vWorld)
}

func vScripts() []vScript {
	members := func(n, ownPos int) []int {
		m := make([]int, n)
		for i := range m {
			m[i] = 30 + i
		}
		if ownPos >= 0 && ownPos < n {
			m[ownPos] = -1
		}
		return m
	}
	tick := func(dr *vDriver, T *int64, d int64) bool {
		*T += d
		dr.opClock(*T)
		return dr.opCleanup()
	}
	return []vScript{
		{"c13a-empty-payload-stored-then-reobserved", func(dr *vDriver, w *vWorld) {
			// set of one guardian (the node itself); a chain message with an empty payload reaches quorum through the
			// loopback, is stored, and is then observed again
			gs := w.set(members(1, 0), 0)
			dr.opClock(1000)
			if !dr.opSetGS(gs) {
				return
			}
			for _, kind := range []int{1, 2} {
				k := w.msg(kind)
				if !dr.opMsg(k) || !dr.opLoop(0) || !dr.opMsg(k) {
					return
				}
				if len(dr.pending) > 0 && !dr.opLoop(0) {
					return
				}
				T := int64(1000)
				if !tick(dr, &T, 31) {
					return
				}
			}
		}},
		{"c13b-injection-before-first-set-then-cleanup", func(dr *vDriver, w *vWorld) {
			T := int64(1000)
			dr.opClock(T)
			v := &vaa.VAA{Version: vaa.SupportedVAAVersion, GuardianSetIndex: 0, Timestamp: time.Unix(1700000000, 0), Nonce: 7, Sequence: 9,
				ConsistencyLevel: 32, EmitterChain: w.govCh, EmitterAddress: w.govAddr, TargetChain: 0, Payload: w.r.bytes(40)}
			if !dr.opInject(v) || !dr.opLoop(0) {
				return
			}
			for _, d := range []int64{29, 2, 269, 1, 300, 3000} {
				if !tick(dr, &T, d) {
					return
				}
			}
			dr.opSetGS(w.set(members(3, 1), 0))
			tick(dr, &T, 300)
		}},
		{"c13c-observations-before-any-set-and-cleanup-without-set", func(dr *vDriver, w *vWorld) {
			T := int64(1000)
			dr.opClock(T)
			k := w.msg(0)
			d := digestOfMsg(k, 0)
			if !dr.opObs(w.obsBy(30, d, k.TxHash[:]), "member") || !dr.opMsg(k) || !tick(dr, &T, 31) || !tick(dr, &T, 300) {
				return
			}
			dr.opInbound(w.signedVAA(k, w.set(members(1, -1), 0), members(1, -1), []int{0}), "valid")
		}},
		{"c13d-empty-guardian-set", func(dr *vDriver, w *vWorld) {
			T := int64(1000)
			dr.opClock(T)
			if !dr.opSetGS(&common.GuardianSet{Index: 3}) {
				return
			}
			k := w.msg(0)
			d := digestOfMsg(k, 0)
			if !dr.opMsg(k) || !dr.opLoop(0) || !dr.opObs(w.obsBy(30, d, nil), "non-member") {
				return
			}
			dr.opInbound(w.signedVAA(k, w.set(members(1, -1), 3), members(1, -1), []int{0}), "valid")
			for _, dd := range []int64{31, 300, 300, 3601} {
				if !tick(dr, &T, dd) {
					return
				}
			}
		}},
		{"c02-reobserve-idempotent-and-single-publish", func(dr *vDriver, w *vWorld) {
			mem := members(4, 2)
			gs := w.set(mem, 1)
			dr.opClock(1000)
			dr.opSetGS(gs)
			k := w.msg(0)
			d := digestOfMsg(k, 0)
			dr.opObs(w.obsBy(mem[0], d, k.TxHash[:]), "member")
			dr.opMsg(k)
			dr.opMsg(k)
			dr.opObs(w.obsBy(mem[1], d, k.TxHash[:]), "member")
			dr.opLoop(1)
			dr.opLoop(0)
			dr.opObs(w.obsBy(mem[3], d, k.TxHash[:]), "member")
			dr.opMsg(k)
			for len(dr.pending) > 0 {
				dr.opLoop(0)
			}
		}},
		{"c02-set-change-between-observation-and-quorum", func(dr *vDriver, w *vWorld) {
			mem := members(3, 0)
			gs := w.set(mem, 1)
			mem2 := []int{-1, 40, 41, 42}
			gs2 := w.set(mem2, 2)
			dr.opClock(1000)
			dr.opSetGS(gs)
			k := w.msg(0)
			d := digestOfMsg(k, 0)
			dr.opMsg(k)
			dr.opSetGS(gs2)
			// members of the NEW set are not applicable to the entry snapshotted under the old one
			dr.opObs(w.obsBy(40, d, k.TxHash[:]), "future-member")
			dr.opObs(w.obsBy(41, d, k.TxHash[:]), "future-member")
			dr.opLoop(0)
			dr.opObs(w.obsBy(mem[1], d, k.TxHash[:]), "member")
			dr.opObs(w.obsBy(mem[2], d, k.TxHash[:]), "member")
			// a second message observed under the new set
			k2 := w.msg(0)
			d2 := digestOfMsg(k2, 0)
			dr.opObs(w.obsBy(mem[1], d2, k2.TxHash[:]), "old-member-early")
			dr.opMsg(k2)
			dr.opLoop(0)
			dr.opObs(w.obsBy(40, d2, k2.TxHash[:]), "member")
			dr.opObs(w.obsBy(41, d2, k2.TxHash[:]), "member")
		}},
		{"c04-digest-is-a-function-of-the-message-fields", func(dr *vDriver, w *vWorld) {
			dr.opClock(1000)
			dr.opSetGS(w.set(members(3, 1), 7))
			for _, ts := range []time.Time{{}, time.Unix(0, 0), time.Unix(-1, 0), time.Unix(1<<32, 0), time.Unix(1700000000, 999999999), time.Unix(1700000001, 0)} {
				k := w.msg(0)
				k.Timestamp = ts
				dr.opMsg(k)
				dr.opLoop(0)
			}
			// guardians run in different time zones: the watchers build the observation time with time.Unix (process-local zone);
			// the digest must depend on the instant only
			saved := time.Local
			for _, z := range []*time.Location{time.FixedZone("east", 2*3600), time.FixedZone("west", -5*3600), time.FixedZone("odd", 5*3600+45*60), time.UTC} {
				time.Local = z
				k := w.msg(0)
				k.Timestamp = time.Unix(1700000000+int64(z.String()[0]), 0)
				dr.opMsg(k)
				dr.opLoop(0)
				k2 := w.msg(0)
				k2.Timestamp = time.Unix(1700003600, 0).In(z)
				dr.opMsg(k2)
				dr.opLoop(0)
			}
			time.Local = saved
		}},
		{"c04-reobservation-of-a-stored-message-with-another-block-time", func(dr *vDriver, w *vWorld) {
			// the node is the only guardian: its own signature is a quorum, the VAA is stored; the same message id is then observed
			// again with another block time inside the settlement window (reorg / re-inclusion): the digest it signs must still be the
			// digest of THAT observation's own fields, not of the stored VAA's
			dr.opClock(1000)
			if !dr.opSetGS(w.set(members(1, 0), 3)) {
				return
			}
			k := w.msg(0)
			k.Timestamp = time.Unix(1700000000, 0)
			if !dr.opMsg(k) || !dr.opLoop(0) {
				return
			}
			for _, d := range []int64{7, -7, 29, 30, 31, 3600} {
				k2 := *k
				k2.Timestamp = time.Unix(1700000000+d, 0)
				if !dr.opMsg(&k2) {
					return
				}
				for len(dr.pending) > 0 {
					if !dr.opLoop(0) {
						return
					}
				}
			}
		}},
		{"c01-peer-copy-never-replaces-a-stored-vaa", func(dr *vDriver, w *vWorld) {
			mem := members(4, 1)
			gs := w.set(mem, 2)
			dr.opClock(1000)
			dr.opSetGS(gs)
			k := w.msg(0)
			d := digestOfMsg(k, 0)
			// locally assembled from signers 0,1(own),2
			dr.opMsg(k)
			dr.opObs(w.obsBy(mem[0], d, k.TxHash[:]), "member")
			dr.opLoop(0)
			dr.opObs(w.obsBy(mem[2], d, k.TxHash[:]), "member")
			// a peer's valid copy with another signer subset (different bytes, same id), then one with another body under the same id
			dr.opInbound(w.signedVAA(k, gs, mem, []int{0, 2, 3}), "valid-other-signers")
			k2 := *k
			k2.Payload = append([]byte{9}, w.r.bytes(12)...)
			dr.opInbound(w.signedVAA(&k2, gs, mem, []int{0, 1, 2, 3}), "same-id-other-body")
			// and the reverse order for a second message: peer copy first, then the local quorum overwrites with its own assembly
			k3 := w.msg(0)
			d3 := digestOfMsg(k3, 0)
			dr.opInbound(w.signedVAA(k3, gs, mem, []int{0, 2, 3}), "valid")
			dr.opInbound(w.signedVAA(k3, gs, mem, []int{0, 1, 2, 3}), "valid-again")
			dr.opMsg(k3)
			dr.opLoop(0)
			dr.opObs(w.obsBy(mem[0], d3, k3.TxHash[:]), "member")
			dr.opObs(w.obsBy(mem[3], d3, k3.TxHash[:]), "member")
		}},
		{"c01-set-shrinks-between-observation-and-quorum", func(dr *vDriver, w *vWorld) {
			// observed under a set of 7 (quorum 5); the set then shrinks to 3 (quorum 3): threshold, membership and assembly must all
			// keep following the snapshot of 7
			mem := members(7, 3)
			gs := w.set(mem, 4)
			small := w.set([]int{-1, mem[0], mem[1]}, 5)
			dr.opClock(1000)
			dr.opSetGS(gs)
			k := w.msg(0)
			d := digestOfMsg(k, 0)
			dr.opMsg(k)
			dr.opLoop(0)
			dr.opObs(w.obsBy(mem[0], d, k.TxHash[:]), "member")
			dr.opSetGS(small)
			dr.opObs(w.obsBy(mem[1], d, k.TxHash[:]), "member")
			dr.opObs(w.obsBy(mem[1], d, k.TxHash[:]), "member-retransmission")
			dr.opObs(w.obsBy(mem[6], d, k.TxHash[:]), "member-of-snapshot-only")
			dr.opObs(w.obsBy(mem[5], d, k.TxHash[:]), "member-of-snapshot-only")
			dr.opObs(w.obsBy(mem[4], d, k.TxHash[:]), "member-of-snapshot-only")
			// and the other direction: observed under 3, set grows to 7
			k2 := w.msg(0)
			d2 := digestOfMsg(k2, 0)
			dr.opMsg(k2)
			dr.opLoop(0)
			dr.opSetGS(w.set(mem, 6))
			dr.opObs(w.obsBy(mem[0], d2, k2.TxHash[:]), "member")
			dr.opObs(w.obsBy(mem[1], d2, k2.TxHash[:]), "member")
		}},
		{"c01-signatures-of-an-earlier-message-replayed-under-a-new-digest", func(dr *vDriver, w *vWorld) {
			// message A is observed by everybody (the peers' genuine observations pass through the node); the node then observes message B
			// on its own and a peer replays the others' signatures of A, byte for byte, under B's digest: they do not recover to any member
			// for B, nothing may be recorded, B stays without quorum
			mem := members(4, 0)
			dr.opClock(1000)
			dr.opSetGS(w.set(mem, 0))
			ka := w.msg(0)
			da := digestOfMsg(ka, 0)
			dr.opMsg(ka)
			dr.opLoop(0)
			oa := []*gossipv1.SignedObservation{w.obsBy(mem[1], da, ka.TxHash[:]), w.obsBy(mem[2], da, ka.TxHash[:]), w.obsBy(mem[3], da, ka.TxHash[:])}
			for _, o := range oa {
				dr.opObs(o, "member")
			}
			kb := w.msg(0)
			db := digestOfMsg(kb, 0)
			dr.opMsg(kb)
			dr.opLoop(0)
			for _, o := range oa {
				dr.opObs(&gossipv1.SignedObservation{Addr: o.Addr, Hash: db, Signature: o.Signature, TxHash: kb.TxHash[:], MessageId: "x"}, "signature-of-another-digest")
			}
			// the same before the node has seen the message itself, and then its own observation
			kc := w.msg(0)
			dc := digestOfMsg(kc, 0)
			for _, o := range oa {
				dr.opObs(&gossipv1.SignedObservation{Addr: o.Addr, Hash: dc, Signature: o.Signature, TxHash: kc.TxHash[:], MessageId: "x"}, "signature-of-another-digest")
			}
			dr.opMsg(kc)
			dr.opLoop(0)
		}},
		{"c01-inbound-vaa-under-quorum-after-the-set-grew", func(dr *vDriver, w *vWorld) {
			// a set of 4 (threshold 3): a valid inbound VAA is stored; the set grows to 7 (threshold 5): inbound VAAs with 3 and with 4 valid
			// signatures of the NEW set are below its threshold and must not be stored (a threshold remembered from the old set would accept them)
			m4 := members(4, 1)
			g4 := w.set(m4, 0)
			m7 := []int{-1, 30, 32, 33, 60, 61, 62}
			g7 := w.set(m7, 1)
			dr.opClock(1000)
			dr.opSetGS(g4)
			k0 := w.msg(0)
			dr.opInbound(w.signedVAA(k0, g4, m4, []int{0, 1, 2}), "valid")
			dr.opSetGS(g7)
			for _, npos := range [][]int{{0, 1, 2}, {1, 2, 3, 4}, {0, 1, 2, 3, 4}} {
				k := w.msg(0)
				note := "under-quorum"
				if len(npos) >= 5 {
					note = "valid"
				}
				dr.opInbound(w.signedVAA(k, g7, m7, npos), note)
			}
			// and the other direction: the set shrinks to 3 (threshold 3), two signatures are not enough
			m3 := []int{-1, 30, 32}
			g3 := w.set(m3, 2)
			dr.opSetGS(g3)
			for _, npos := range [][]int{{0, 1}, {0, 1, 2}} {
				k := w.msg(0)
				note := "under-quorum"
				if len(npos) >= 3 {
					note = "valid"
				}
				dr.opInbound(w.signedVAA(k, g3, m3, npos), note)
			}
		}},
		{"c01-inbound-vaa-naming-another-set-index-below-quorum", func(dr *vDriver, w *vWorld) {
			mem := members(7, 2)
			gs := w.set(mem, 3)
			dr.opClock(1000)
			dr.opSetGS(gs)
			k := w.msg(0)
			for _, idx := range []uint32{2, 4, 3} {
				v := dr.vaaOfMsg(k, idx)
				v.AddSignature(w.key(mem[1]), 1)
				b, _ := v.Marshal()
				dr.opInbound(b, "one-valid-signature-index-"+fmt.Sprint(idx))
			}
			v := dr.vaaOfMsg(k, 9)
			for _, p := range []int{0, 1, 3, 4, 5} {
				v.AddSignature(w.key(mem[p]), uint8(p))
			}
			b, _ := v.Marshal()
			dr.opInbound(b, "quorum-of-current-set-other-index")
		}},
		{"fault-c02-peers-first-while-the-aggregation-state-is-large", func(dr *vDriver, w *vWorld) {
			// the processor keeps published entries for an hour: under load its aggregation state holds thousands of digests.  With 9000 of
			// them in the state, two peers' observations of a new message arrive BEFORE the node's own observation: they are parked, and the
			// node's own signature then completes the quorum (judged by the monitors only: the state was filled behind the model's back)
			mem := members(4, 0)
			dr.opClock(1000)
			dr.opSetGS(w.set(mem, 0))
			dr.h.Faults = true
			now := time.Now()
			for i := 0; i < 9000; i++ {
				dr.p.state.vaaSignatures[fmt.Sprintf("%064x", i+1)] = &vaaState{firstObserved: now, submitted: true, settled: true, signatures: map[ethcommon.Address][]byte{}}
			}
			k := w.msg(0)
			d := digestOfMsg(k, 0)
			dr.opObs(w.obsBy(mem[1], d, k.TxHash[:]), "member")
			dr.opObs(w.obsBy(mem[2], d, k.TxHash[:]), "member")
			dr.opMsg(k)
			dr.opLoop(0)
			for h := range dr.p.state.vaaSignatures {
				if len(h) == 64 && h[:40] == "0000000000000000000000000000000000000000" {
					delete(dr.p.state.vaaSignatures, h)
				}
			}
		}},
		{"c03-genuine-signature-under-a-hash-field-of-another-length", func(dr *vDriver, w *vWorld) {
			// a recorded (digest, signature, address) triple of a member, re-sent with a Hash field that is not 32 bytes long: junk in front
			// of the digest, the digest without its first byte, the digest twice.  No such observation carries a signature over the bytes it
			// names: nothing may be recorded (every different field value would otherwise open an aggregation entry of its own)
			mem := members(4, 0)
			dr.opClock(1000)
			dr.opSetGS(w.set(mem, 0))
			k := w.msg(0)
			d := digestOfMsg(k, 0)
			dr.opMsg(k)
			dr.opLoop(0)
			g := w.obsBy(mem[1], d, k.TxHash[:])
			dr.opObs(g, "member")
			for i, h := range [][]byte{append([]byte{0x01}, d...), append([]byte{0, 0, 0, 7}, d...), append(append([]byte{}, d...), d...), d[1:], append(w.r.bytes(32), d...), {}} {
				dr.opObs(&gossipv1.SignedObservation{Addr: g.Addr, Hash: h, Signature: g.Signature, TxHash: k.TxHash[:], MessageId: "x"}, fmt.Sprintf("genuine-signature-hash-field-of-%d-bytes-%d", len(h), i))
			}
			dr.opObs(w.obsBy(mem[2], d, k.TxHash[:]), "member")
		}},
		{"c14-own-observation-of-a-message-whose-block-time-is-ahead-of-the-clock", func(dr *vDriver, w *vWorld) {
			// the chain's clock is not the guardian's: a message stamped two hours ahead (and one stamped in 1970) is signed, misses quorum,
			// and is settled, retried every five minutes and kept like any other: the entry's age runs on the node's clock
			mem := members(4, 0)
			dr.opClock(1000)
			dr.opSetGS(w.set(mem, 0))
			T := int64(1000)
			for _, ts := range []time.Time{time.Now().Add(2 * time.Hour).Truncate(time.Second), time.Unix(3600, 0)} {
				k := w.msg(0)
				k.Timestamp = ts
				dr.opMsg(k)
				dr.opLoop(0)
			}
			for _, d := range []int64{31, 270, 31, 300, 31} {
				if !tick(dr, &T, d) {
					return
				}
			}
		}},
		{"c02-peers-first-then-a-cleanup-tick-then-the-own-observation", func(dr *vDriver, w *vWorld) {
			// two of four guardians sign first; 40 seconds later (one cleanup tick in between) the node observes the message itself: the
			// parked signatures are still there (signatures for a message the node has not observed are kept for about five minutes) and
			// the node's own signature completes the quorum
			mem := members(4, 0)
			dr.opClock(1000)
			dr.opSetGS(w.set(mem, 0))
			k := w.msg(0)
			d := digestOfMsg(k, 0)
			T := int64(1000)
			dr.opObs(w.obsBy(mem[1], d, k.TxHash[:]), "member")
			dr.opObs(w.obsBy(mem[2], d, k.TxHash[:]), "member")
			if !tick(dr, &T, 40) {
				return
			}
			dr.opMsg(k)
			dr.opLoop(0)
		}},
		{"c14-pending-entry-older-than-a-day-when-the-guardian-set-rotates", func(dr *vDriver, w *vWorld) {
			// a signed message without quorum has been retried every five minutes for 25 hours (about 300 of its 14400 retries); then the
			// guardian set rotates: the entry is still pending, still retried, not dropped because its set was replaced
			mA := []int{-1, 30, 31, 32}
			mB := []int{-1, 30, 40, 41}
			dr.opClock(1000)
			dr.opSetGS(w.set(mA, 0))
			k := w.msg(0)
			T := int64(1000)
			dr.opMsg(k)
			dr.opLoop(0)
			if !tick(dr, &T, 31) {
				return
			}
			for i := 0; i < 151; i++ {
				if !tick(dr, &T, 600) {
					return
				}
			}
			dr.opSetGS(w.set(mB, 1))
			for i := 0; i < 4; i++ {
				if !tick(dr, &T, 300) {
					return
				}
			}
		}},
		{"c13-inbound-vaa-under-quorum-with-signature-indices-outside-the-set", func(dr *vDriver, w *vWorld) {
			// gossip needs no valid signature to get this far: one signature record each, naming guardian positions 0, 2, 3 (= the set
			// size), 200 and 255 of a set of three; all are under quorum and dropped, the node keeps processing
			mem := members(3, 0)
			gs := w.set(mem, 0)
			dr.opClock(1000)
			dr.opSetGS(gs)
			k := w.msg(0)
			for _, idx := range []uint8{0, 2, 3, 200, 255, 1} {
				v := dr.vaaOfMsg(k, 0)
				v.AddSignature(w.key(mem[1]), idx)
				b, _ := v.Marshal()
				dr.opInbound(b, "one-signature-record-index-"+fmt.Sprint(idx))
			}
			dr.opInbound(w.signedVAA(k, gs, mem, []int{0, 1, 2}), "valid")
		}},
		{"c02-governance-emitter-message-for-an-already-stored-governance-vaa", func(dr *vDriver, w *vWorld) {
			// an operator-injected governance VAA is completed and stored; a chain message from the governance emitter with the same id
			// and a block time within the settlement window must still not be signed
			dr.opClock(1000)
			dr.opSetGS(w.set(members(1, 0), 0))
			v := &vaa.VAA{Version: vaa.SupportedVAAVersion, GuardianSetIndex: 0, Timestamp: time.Unix(1700000000, 0), Nonce: 1, Sequence: 77,
				ConsistencyLevel: 32, EmitterChain: w.govCh, EmitterAddress: w.govAddr, TargetChain: 0, Payload: w.r.bytes(40)}
			dr.opInject(v)
			dr.opLoop(0)
			k := w.msg(4)
			k.Sequence = 77
			k.TargetChain = 0
			k.Timestamp = time.Unix(1700000010, 0)
			dr.opMsg(k)
			if len(dr.pending) > 0 {
				dr.opLoop(0)
			}
			k.Timestamp = time.Unix(1700000100, 0)
			dr.opMsg(k)
		}},
		{"c13-more-recorded-signatures-than-keys-of-the-snapshot-set-at-settlement", func(dr *vDriver, w *vWorld) {
			// peers of a LARGE old set observe a message first (their signatures are parked), the set rotates to a SMALL one, the node
			// observes the message (the entry is pinned to the small set), a member of the new set observes too: the entry now holds more
			// signatures than its set has keys; settlement (30 s) and the following ticks must cope with that (any "missing = keys - have"
			// arithmetic is negative here)
			old := members(7, -1)
			small := []int{-1, 50, 51}
			dr.opClock(1000)
			dr.opSetGS(w.set(old, 4))
			k := w.msg(0)
			d := digestOfMsg(k, 0)
			for _, m := range old[:5] {
				dr.opObs(w.obsBy(m, d, k.TxHash[:]), "member")
			}
			dr.opSetGS(w.set(small, 5))
			dr.opMsg(k)
			dr.opObs(w.obsBy(50, d, k.TxHash[:]), "member")
			T := int64(1000)
			for i := 0; i < 4; i++ {
				if !tick(dr, &T, 31) {
					return
				}
			}
			dr.opLoop(0)
			for i := 0; i < 3; i++ {
				if !tick(dr, &T, 301) {
					return
				}
			}
		}},
		{"c13-duplicate-observation-for-a-settled-completed-entry", func(dr *vDriver, w *vWorld) {
			mem := members(3, 1)
			dr.opClock(1000)
			dr.opSetGS(w.set(mem, 0))
			k := w.msg(0)
			d := digestOfMsg(k, 0)
			T := int64(1000)
			dr.opMsg(k)
			dr.opLoop(0)
			dr.opObs(w.obsBy(mem[0], d, k.TxHash[:]), "member")
			dr.opObs(w.obsBy(mem[2], d, k.TxHash[:]), "member")
			for _, dd := range []int64{31, 1, 30} {
				if !tick(dr, &T, dd) {
					return
				}
				if !dr.opObs(w.obsBy(mem[0], d, k.TxHash[:]), "member-retransmission") {
					return
				}
			}
			dr.opObs(w.obsBy(50, d, k.TxHash[:]), "non-member")
			dr.opMsg(k)
			if len(dr.pending) > 0 {
				dr.opLoop(0)
			}
		}},
		{"fault-c02-store-closed-when-quorum-is-reached", func(dr *vDriver, w *vWorld) {
			// the store fails at the moment of quorum: the VAA is still broadcast, and it must still be broadcast only once
			mem := members(3, 1)
			dr.opClock(1000)
			dr.opSetGS(w.set(mem, 0))
			k := w.msg(0)
			d := digestOfMsg(k, 0)
			dr.opMsg(k)
			dr.opLoop(0)
			dr.h.Faults = true
			dr.dbDown = true
			dr.d.Close()
			dr.opObs(w.obsBy(mem[0], d, k.TxHash[:]), "member")
			dr.opObs(w.obsBy(mem[2], d, k.TxHash[:]), "member")
			dr.opObs(w.obsBy(mem[0], d, k.TxHash[:]), "member-retransmission")
			dr.opObs(w.obsBy(mem[2], d, k.TxHash[:]), "member-retransmission")
		}},
		{"fault-c14-request-queue-full-at-retry-time", func(dr *vDriver, w *vWorld) {
			// the outbound re-observation queue is full when the retry is due: the request is lost (non-blocking post), the own
			// observation must still be re-broadcast and the retry counted
			mem := members(3, 1)
			dr.opClock(1000)
			dr.opSetGS(w.set(mem, 0))
			k := w.msg(0)
			T := int64(1000)
			dr.opMsg(k)
			dr.opLoop(0)
			tick(dr, &T, 31)
			dr.h.Faults = true
			dr.fillReq = true
			for i := 0; i < 3; i++ {
				if !tick(dr, &T, 300) {
					return
				}
			}
		}},
		{"c14-retry-schedule-of-a-pending-own-observation", func(dr *vDriver, w *vWorld) {
			mem := members(3, 1)
			dr.opClock(1000)
			dr.opSetGS(w.set(mem, 0))
			k := w.msg(0)
			T := int64(1000)
			dr.opMsg(k)
			dr.opLoop(0)
			dr.opObs(w.obsBy(50, w.r.bytes(32), nil), "unknown-digest-non-member")
			dr.opObs(w.obsBy(mem[0], w.r.bytes(32), nil), "unknown-digest")
			for i := 0; i < 24; i++ {
				if !tick(dr, &T, 30) {
					return
				}
			}
			for _, d := range []int64{299, 1, 300, 301, 4000, 10, 290, 86400, 300} {
				if !tick(dr, &T, d) {
					return
				}
			}
		}},
		{"c14-pending-entries-whose-store-key-is-a-prefix-of-a-stored-vaas-key", func(dr *vDriver, w *vWorld) {
			// the node signed sequences 1 and 2 of a stream and waits for quorum; the store holds quorum VAAs of the SAME stream with
			// sequences 10, 11, 12, 20 and 100 (their keys start with the keys of 1 / 2 / 10): none of them is "the quorum VAA for the
			// message", so the pending entries must survive settlement and be retried at five minutes
			mem := members(3, 1)
			gs := w.set(mem, 0)
			dr.opClock(1000)
			dr.opSetGS(gs)
			base := w.msg(0)
			T := int64(1000)
			for _, sq := range []uint64{10, 11, 12, 20, 100} {
				k := *base
				k.Sequence = sq
				k.Payload = w.r.bytes(12)
				dr.opInbound(w.signedVAA(&k, gs, mem, []int{0, 1, 2}), "valid")
			}
			for _, sq := range []uint64{1, 2} {
				k := *base
				k.Sequence = sq
				k.Payload = w.r.bytes(12)
				copy(k.TxHash[:], w.r.bytes(32))
				dr.opMsg(&k)
				dr.opLoop(0)
			}
			for _, d := range []int64{31, 31, 240, 31, 300} {
				if !tick(dr, &T, d) {
					return
				}
			}
		}},
		{"c01-inbound-vaa-naming-the-previous-set-after-a-rotation-to-a-smaller-set", func(dr *vDriver, w *vWorld) {
			// set 0 has seven guardians (threshold 5), set 1 four (threshold 3).  After the rotation a peer sends VAAs that name set 0 and carry
			// three, four and five valid signatures of set 0: none of them is complete for the node's current set (a peer / backfill VAA is
			// judged against the current set), and three or four are not even complete for set 0
			mA := []int{-1, 30, 31, 32, 33, 34, 35}
			mB := []int{-1, 30, 40, 41}
			gA := w.set(mA, 0)
			gB := w.set(mB, 1)
			dr.opClock(1000)
			dr.opSetGS(gA)
			dr.opInbound(w.signedVAA(w.msg(0), gA, mA, []int{0, 1, 2, 3, 4}), "valid")
			dr.opSetGS(gB)
			for _, pos := range [][]int{{1, 2, 3}, {2, 3, 4, 5}, {1, 2, 3, 4, 5}, {0, 1, 2, 3, 4, 5, 6}} {
				dr.opInbound(w.signedVAA(w.msg(0), gA, mA, pos), fmt.Sprintf("previous-set-%d-signatures", len(pos)))
			}
			dr.opInbound(w.signedVAA(w.msg(0), gB, mB, []int{0, 1, 2}), "valid")
		}},
		{"c01-complete-under-one-set-then-rotation-reobservation-and-one-more-signature", func(dr *vDriver, w *vWorld) {
			// the message reaches quorum under set 0 (four guardians) and its VAA is stored; the set rotates to seven guardians (threshold 5),
			// the watcher re-observes the message, the node's own signature and one more arrive: whatever is stored under the message id
			// afterwards still carries a valid quorum of the set it names
			mA := []int{-1, 30, 31, 32}
			mB := []int{-1, 30, 31, 32, 40, 41, 42}
			dr.opClock(1000)
			dr.opSetGS(w.set(mA, 0))
			k := w.msg(0)
			d := digestOfMsg(k, 0)
			dr.opMsg(k)
			dr.opLoop(0)
			dr.opObs(w.obsBy(mA[1], d, k.TxHash[:]), "member")
			dr.opObs(w.obsBy(mA[2], d, k.TxHash[:]), "member")
			dr.opSetGS(w.set(mB, 1))
			dr.opMsg(k)
			dr.opLoop(0)
			dr.opObs(w.obsBy(mB[4], d, k.TxHash[:]), "member")
			dr.opObs(w.obsBy(mB[1], d, k.TxHash[:]), "member")
		}},
		{"c02-reobservation-after-a-rotation-then-quorum-of-the-new-set", func(dr *vDriver, w *vWorld) {
			// observed under set 1 (below quorum), the set rotates to other members under index 2, the watcher re-observes the same message
			// (same digest: the index is not part of the body), then two members of set 2 sign: the published VAA is the node's LAST
			// observation - it names set 2 and carries set 2's signatures at set 2's positions
			mA := []int{-1, 30, 31, 32}
			mB := []int{-1, 40, 41, 42}
			dr.opClock(1000)
			dr.opSetGS(w.set(mA, 1))
			k := w.msg(0)
			d := digestOfMsg(k, 0)
			dr.opMsg(k)
			dr.opLoop(0)
			dr.opObs(w.obsBy(mA[1], d, k.TxHash[:]), "member")
			dr.opSetGS(w.set(mB, 2))
			dr.opMsg(k)
			dr.opLoop(0)
			dr.opObs(w.obsBy(mB[2], d, k.TxHash[:]), "member")
			dr.opObs(w.obsBy(mB[3], d, k.TxHash[:]), "member")
			dr.opObs(w.obsBy(mB[1], d, k.TxHash[:]), "member")
		}},
		{"fault-c02-store-unreadable-when-the-message-is-observed", func(dr *vDriver, w *vWorld) {
			// the store cannot be read at the moment the watcher hands a message over (the lookup there is only a shortcut for messages whose
			// VAA is already stored): the node has observed the message, so it signs and gossips its observation all the same, and once the
			// store is back the delivered quorum (two peers parked earlier + its own) is published
			mem := members(4, 1)
			dr.opClock(1000)
			dr.opSetGS(w.set(mem, 0))
			k := w.msg(0)
			d := digestOfMsg(k, 0)
			dr.opObs(w.obsBy(mem[0], d, k.TxHash[:]), "member")
			dr.opObs(w.obsBy(mem[2], d, k.TxHash[:]), "member")
			dr.h.Faults = true
			dr.dbDown = true
			dr.d.Close()
			ok := dr.opMsg(k)
			signed := false
			if n := len(dr.h.Steps); ok && n > 0 {
				for _, o := range dr.h.Steps[n-1].Outs {
					if len(o) > 8 && o[:8] == "sendobs " {
						signed = true
					}
				}
			}
			if ok && !signed {
				dr.h.Mon = append(dr.h.Mon, "C02: the node observed a chain message while its store could not be read and neither signed nor gossiped its observation (nothing is stored under that message id; the failed lookup is not 'already published')")
			}
			if d2, err := db.Open(dr.dir); err == nil {
				dr.d = d2
				dr.p.db = d2
				dr.dbDown = false
			} else {
				dr.h.Mon = append(dr.h.Mon, "harness: the store did not reopen: "+err.Error())
				return
			}
			dr.opLoop(0)
		}},
		{"c14-cleanup-ticks-while-gossip-is-queued", func(dr *vDriver, w *vWorld) {
			// a tick is a pass: at every tick of this history the inbound observation queue (the node's has 50 slots) holds 30 peer
			// observations that the loop has not taken yet; the pending own observation is still retried at five minutes, the entry of a
			// message the node never observed is still removed
			mem := members(4, 1)
			dr.opClock(1000)
			dr.opSetGS(w.set(mem, 0))
			k := w.msg(0)
			T := int64(1000)
			dr.opMsg(k)
			dr.opLoop(0)
			other := w.msg(0)
			dr.opObs(w.obsBy(mem[0], digestOfMsg(other, 0), other.TxHash[:]), "member")
			busy := make(chan *gossipv1.SignedObservation, 50)
			for i := 0; i < 30; i++ {
				x := w.msg(0)
				busy <- w.obsBy(mem[2], digestOfMsg(x, 0), x.TxHash[:])
			}
			quiet := dr.p.obsvC
			dr.p.obsvC = busy
			defer func() { dr.p.obsvC = quiet }()
			for _, d := range []int64{31, 150, 125, 31, 31, 300, 31} {
				if !tick(dr, &T, d) {
					return
				}
			}
		}},
		{"fault-c14-store-unreadable-during-one-cleanup-tick", func(dr *vDriver, w *vWorld) {
			// the store cannot be read while one cleanup tick runs (closed, reopened afterwards): a failed lookup is not "the quorum VAA is
			// stored"; the pending own observation must still be there afterwards and be retried at five minutes
			mem := members(3, 1)
			dr.opClock(1000)
			dr.opSetGS(w.set(mem, 0))
			k := w.msg(0)
			T := int64(1000)
			dr.opMsg(k)
			dr.opLoop(0)
			if !tick(dr, &T, 31) || !tick(dr, &T, 90) {
				return
			}
			dr.h.Faults = true
			dr.dbDown = true
			dr.d.Close()
			if !tick(dr, &T, 31) {
				return
			}
			if d2, err := db.Open(dr.dir); err == nil {
				dr.d = d2
				dr.p.db = d2
				dr.dbDown = false
			} else {
				dr.h.Mon = append(dr.h.Mon, "harness: the store did not reopen: "+err.Error())
				return
			}
			for _, d := range []int64{31, 150, 31} {
				if !tick(dr, &T, d) {
					return
				}
			}
		}},
		{"c14-pending-own-observation-is-kept-and-retried-for-more-than-five-days", func(dr *vDriver, w *vWorld) {
			// a signed message that never reaches quorum: ticks every ten minutes for 127 hours (the budget of 14400 retries is far from spent:
			// about 760 retries): the entry must still be there and be retried at every one of these ticks — age alone never expires it
			mem := members(3, 1)
			dr.opClock(1000)
			dr.opSetGS(w.set(mem, 0))
			k := w.msg(0)
			T := int64(1000)
			dr.opMsg(k)
			dr.opLoop(0)
			if !tick(dr, &T, 31) {
				return
			}
			for i := 0; i < 762; i++ {
				if !tick(dr, &T, 600) {
					return
				}
			}
		}},
		{"c14-late-own-observation-with-stored-quorum-vaa", func(dr *vDriver, w *vWorld) {
			mem := members(3, 1)
			gs := w.set(mem, 0)
			dr.opClock(1000)
			dr.opSetGS(gs)
			k := w.msg(0)
			T := int64(1000)
			dr.opInbound(w.signedVAA(k, gs, mem, []int{0, 1, 2}), "valid")
			dr.opMsg(k)
			dr.opLoop(0)
			for _, d := range []int64{29, 2, 300} {
				if !tick(dr, &T, d) {
					return
				}
			}
		}},
		{"c14-completed-entry-expires-after-an-hour", func(dr *vDriver, w *vWorld) {
			mem := members(1, 0)
			dr.opClock(1000)
			dr.opSetGS(w.set(mem, 0))
			k := w.msg(0)
			T := int64(1000)
			dr.opMsg(k)
			dr.opLoop(0)
			for _, d := range []int64{31, 300, 3268, 1, 1} {
				if !tick(dr, &T, d) {
					return
				}
			}
		}},
	}
}

func vRunScripts(t *testing.T, ctx context.Context, w *vWorld, o *vout, firstID int) int {
	n := 0
	for _, s := range vScripts() {
		dr := vNewDriver(t, ctx, w.own, w.govCh, w.govAddr, firstID+n)
		func() {
			defer dr.close()
			s.run(dr, w)
		}()
		h := dr.finish()
		h.Shape = fmt.Sprintf("script %s", s.name)
		o.emit(h)
		n++
	}
	return n
}

// ---------------------------------------------------------------- replay of a recorded history (./check Cxx --replay file)
func vReplayOps(dr *vDriver, ops []vOp) {
	hx := func(s string) []byte { b, _ := hexDecode(s); return b }
	for _, op := range ops {
		ok := true
		switch op.K {
		case "setgs":
			gs := &common.GuardianSet{Index: op.Idx}
			for _, k := range op.Keys {
				var a [20]byte
				copy(a[:], hx(k))
				gs.Keys = append(gs.Keys, a)
			}
			ok = dr.opSetGS(gs)
		case "clock":
			ok = dr.opClock(op.T)
		case "msg":
			k := &common.MessagePublication{Nonce: op.Nonce, ConsistencyLevel: op.CL, EmitterChain: vaa.ChainID(op.EChain), TargetChain: vaa.ChainID(op.TChain),
				Timestamp: time.Unix(op.Secs, op.Nsec), Payload: hx(op.Payload)}
			fmt.Sscan(op.Seq, &k.Sequence)
			copy(k.TxHash[:], hx(op.Tx))
			copy(k.EmitterAddress[:], hx(op.EAddr))
			ok = dr.opMsg(k)
		case "inject":
			v := &vaa.VAA{Version: vaa.SupportedVAAVersion, GuardianSetIndex: op.GsIdx, Timestamp: time.Unix(op.Secs, op.Nsec), Nonce: op.Nonce,
				ConsistencyLevel: op.CL, EmitterChain: vaa.ChainID(op.EChain), TargetChain: vaa.ChainID(op.TChain), Payload: hx(op.Payload)}
			fmt.Sscan(op.Seq, &v.Sequence)
			copy(v.EmitterAddress[:], hx(op.EAddr))
			ok = dr.opInject(v)
		case "obs":
			ok = dr.opObs(&gossipv1.SignedObservation{Addr: hx(op.Addr), Hash: hx(op.Hash), Signature: hx(op.Sig), TxHash: hx(op.Tx), MessageId: "x"}, op.Note)
		case "loop":
			ok = dr.opLoop(op.N)
		case "inbound":
			ok = dr.opInbound(hx(op.Bytes), op.Note)
		case "cleanup":
			ok = dr.opCleanup()
		}
		if !ok {
			return
		}
	}
}

func TestVerifProcReplay(t *testing.T) {
	o := verifOut(t)
	defer o.close()
	raw, err := os.ReadFile(os.Getenv("VERIF_REPLAY"))
	if err != nil {
		t.Fatal(err)
	}
	var in struct {
		Histories []struct {
			Own   string `json:"own_key"`
			GovCh uint16 `json:"gov_chain"`
			GovAd string `json:"gov_addr"`
			Ops   []vOp  `json:"ops"`
		} `json:"histories"`
	}
	if err := json.Unmarshal(raw, &in); err != nil {
		t.Fatal(err)
	}
	vWithSupervisor(t, func(ctx context.Context) {
		for i, h := range in.Histories {
			kb, _ := hexDecode(h.Own)
			own, err := crypto.ToECDSA(kb)
			if err != nil {
				t.Errorf("bad own key in replay file")
				return
			}
			var ga vaa.Address
			b, _ := hexDecode(h.GovAd)
			copy(ga[:], b)
			dr := vNewDriver(t, ctx, own, vaa.ChainID(h.GovCh), ga, i)
			vReplayOps(dr, h.Ops)
			dr.close()
			hh := dr.finish()
			hh.Shape = "replay"
			o.emit(hh)
		}
	})
}
