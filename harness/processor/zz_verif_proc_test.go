//go:build verif

package processor

// Deterministic driver of the REAL processor handlers over generated histories (C01, C02, C03, C13, C14).
// Handlers are called directly in the order of the history; the own-signature fast-path goroutine is captured by
// receiving from p.obsvC and delivered when the history says so; the cleanup clock is virtual (instants rewritten
// to now-age right before the call).  After every op the outputs and a projection of the state are recorded.

import (
	"sync/atomic"
	"context"
	"crypto/ecdsa"
	"encoding/binary"
	"encoding/hex"
	"fmt"
	"os"
	"path/filepath"
	"sort"
	"testing"
	"time"

	"github.com/alephium/wormhole-fork/node/pkg/common"
	"github.com/alephium/wormhole-fork/node/pkg/db"
	"github.com/alephium/wormhole-fork/node/pkg/ecdsasigner"
	gossipv1 "github.com/alephium/wormhole-fork/node/pkg/proto/gossip/v1"
	"github.com/alephium/wormhole-fork/node/pkg/reporter"
	"github.com/alephium/wormhole-fork/node/pkg/supervisor"
	"github.com/alephium/wormhole-fork/node/pkg/vaa"
	ethcommon "github.com/ethereum/go-ethereum/common"
	"github.com/ethereum/go-ethereum/crypto"
	"go.uber.org/zap"
	"golang.org/x/crypto/sha3"
	"google.golang.org/protobuf/proto"
)

func vkeccak(b []byte) []byte {
	h := sha3.NewLegacyKeccak256()
	h.Write(b)
	return h.Sum(nil)
}

func vkey(r *vrng) *ecdsa.PrivateKey {
	for {
		k, err := crypto.ToECDSA(r.bytes(32))
		if err == nil {
			return k
		}
	}
}

func vrecover(h, sig []byte) []byte {
	pk, err := crypto.Ecrecover(h, sig)
	if err != nil {
		return nil
	}
	return crypto.Keccak256(pk[1:])[12:]
}

// ---------------------------------------------------------------- history description (what goes into the trace)
type vOp struct {
	K string `json:"k"` // setgs clock msg inject obs loop inbound cleanup
	// setgs
	Keys []string `json:"keys,omitempty"`
	Idx  uint32   `json:"idx,omitempty"`
	// clock (virtual seconds)
	T int64 `json:"t,omitempty"`
	// msg / inject : VAA-like fields
	Tx      string `json:"tx,omitempty"`
	Secs    int64  `json:"secs,omitempty"`
	Nsec    int64  `json:"nsec,omitempty"`
	Nonce   uint32 `json:"nonce,omitempty"`
	Seq     string `json:"seq,omitempty"`
	CL      uint8  `json:"cl,omitempty"`
	EChain  uint16 `json:"echain,omitempty"`
	TChain  uint16 `json:"tchain,omitempty"`
	EAddr   string `json:"eaddr,omitempty"`
	Payload string `json:"payload"`
	GsIdx   uint32 `json:"gsidx,omitempty"`
	// obs
	Addr string `json:"addr,omitempty"`
	Hash string `json:"hash,omitempty"`
	Sig  string `json:"sig,omitempty"`
	// loop: index into the pending own observations
	N int `json:"n,omitempty"`
	// inbound
	Bytes string `json:"bytes,omitempty"`
	Note  string `json:"note,omitempty"`
}

type vStep struct {
	OutHash   uint64   `json:"oh"`
	StateHash uint64   `json:"sh"`
	NEntries  int      `json:"ne"`
	Outs      []string `json:"outs"`
	State     []string `json:"state,omitempty"`
	Panic     string   `json:"panic,omitempty"`
	Eps       int64    `json:"eps_ms,omitempty"`
}

type vHistory struct {
	K      string      `json:"k"`
	ID     int         `json:"id"`
	Own    string      `json:"own"`
	OwnKey string      `json:"own_key"` // test key (generated from the seed), recorded so that a history can be replayed
	GovCh  uint16      `json:"gov_chain"`
	GovAd  string      `json:"gov_addr"`
	Ops    []vOp       `json:"ops"`
	Steps  []vStep     `json:"steps"`
	Keccak [][2]string `json:"keccak"`
	Sign   [][2]string `json:"sign"`
	Rec    [][3]string `json:"rec"` // hash, sig, recovered address or ""
	Mon    []string    `json:"mon"`
	Shape  string      `json:"shape"`
	Faults bool        `json:"faults,omitempty"` // a fault was injected (store closed, request queue full): monitors only, no model comparison
}

// ---------------------------------------------------------------- the driver
type vDriver struct {
	t           *testing.T
	ctx         context.Context
	p           *Processor
	d           *db.Database
	dir         string
	sendC       chan []byte
	obsvC       chan *gossipv1.SignedObservation
	reqC        chan *gossipv1.ObservationRequest
	own         *ecdsa.PrivateKey
	pending     []*gossipv1.SignedObservation // spawned own observations not yet delivered
	T           int64                         // virtual seconds
	fs          map[string]int64              // digest -> virtual first-seen
	lr          map[string]int64              // digest -> virtual last retry
	ids         map[string]vaa.VAAID          // every VAA id the history mentions
	dbSnap      map[string]string
	h           *vHistory
	keccakT     map[string]string
	signT       map[string]string
	recT        map[string]string
	sets        []*common.GuardianSet                 // learned so far (monitor)
	localGS     map[string]*common.GuardianSet        // digest -> set in force at the last accepted local observation / injection
	localIdx    map[string]bool                       // digest -> came from a chain observation (index must match)
	accepted    map[string]map[ethcommon.Address]bool // monitor: valid member observations delivered per digest (current lifetime)
	pubCount    map[string]int
	sawLocal    map[string]bool
	bodyOf      map[string]string // digest -> hex body of the own observation
	dueMiss     map[string]int    // digest -> consecutive ticks at which a retry was due and did not happen
	lastObs     *gossipv1.SignedObservation
	foReal      map[string]time.Time // digest -> firstObserved as left by the previous step (real clock)
	txOf        map[string]string    // digest -> hex tx hash of the chain message the node observed
	chainOf     map[string]uint32    // digest -> emitter chain of that message
	dbDown      bool                 // the store was closed on purpose (fault injection)
	fillReq     bool                 // fault injection: the outbound re-observation queue is full when the tick runs
	skew        map[string]time.Duration // firstObserved as the implementation set it, minus the node's clock at that moment (0 on the pinned tree)
	validQuorum map[string]bool      // digests for which a locally assembled VAA carrying a valid quorum of the applicable set was published / stored (the harness's own verdict)
	lied        map[string]bool
}

// own-signature loopbacks that never arrived (a mutated tree may drop them): after the first misses stop waiting long
var vLoopMisses int

func vNewDriver(t *testing.T, root context.Context, own *ecdsa.PrivateKey, govChain vaa.ChainID, govAddr vaa.Address, id int) *vDriver {
	dir, err := os.MkdirTemp(os.Getenv("VERIF_TMP"), "procdb")
	if err != nil {
		t.Fatal(err)
	}
	opts := dir
	d, err := db.Open(opts)
	if err != nil {
		t.Fatal(err)
	}
	dr := &vDriver{t: t, ctx: root, d: d, dir: dir, own: own,
		sendC: make(chan []byte, 4096), obsvC: make(chan *gossipv1.SignedObservation), reqC: make(chan *gossipv1.ObservationRequest, 4096),
		fs: map[string]int64{}, lr: map[string]int64{}, ids: map[string]vaa.VAAID{}, dbSnap: map[string]string{},
		keccakT: map[string]string{}, signT: map[string]string{}, recT: map[string]string{},
		localGS: map[string]*common.GuardianSet{}, localIdx: map[string]bool{}, accepted: map[string]map[ethcommon.Address]bool{},
		skew: map[string]time.Duration{}, validQuorum: map[string]bool{}, lied: map[string]bool{}, pubCount: map[string]int{}, sawLocal: map[string]bool{}, bodyOf: map[string]string{}, dueMiss: map[string]int{}, foReal: map[string]time.Time{}, txOf: map[string]string{}, chainOf: map[string]uint32{}}
	dr.p = NewProcessor(root, d, nil, nil, dr.sendC, dr.obsvC, dr.reqC, nil, nil, &ecdsasigner.ECDSAPrivateKey{Value: own},
		common.NewGuardianSetState(nil), reporter.EventListener(zap.NewNop()), nil, govChain, govAddr)
	dr.h = &vHistory{K: "hist", ID: id, Own: hex.EncodeToString(crypto.PubkeyToAddress(own.PublicKey).Bytes()), OwnKey: hex.EncodeToString(crypto.FromECDSA(own)), GovCh: uint16(govChain),
		GovAd: hex.EncodeToString(govAddr[:])}
	return dr
}

func (dr *vDriver) close() {
	dr.d.Close()
	os.RemoveAll(dr.dir)
}

func (dr *vDriver) noteKeccak(body []byte) []byte {
	h1 := vkeccak(body)
	h2 := vkeccak(h1)
	dr.keccakT[hex.EncodeToString(body)] = hex.EncodeToString(h1)
	dr.keccakT[hex.EncodeToString(h1)] = hex.EncodeToString(h2)
	return h2
}
func (dr *vDriver) noteSign(digest []byte) {
	s, err := crypto.Sign(digest, dr.own)
	if err == nil {
		dr.signT[hex.EncodeToString(digest)] = hex.EncodeToString(s)
		dr.noteRec(digest, s)
	}
}
func (dr *vDriver) noteRec(h, sig []byte) {
	a := vrecover(h, sig)
	dr.recT[hex.EncodeToString(h)+"|"+hex.EncodeToString(sig)] = hex.EncodeToString(a)
}
func (dr *vDriver) noteVAA(v *vaa.VAA) []byte {
	d := dr.noteKeccak(v.SerializeBody())
	for _, s := range v.Signatures {
		dr.noteRec(d, s.Signature[:])
	}
	id := *db.VaaIDFromVAA(v)
	dr.ids[string(id.Bytes())] = id
	return d
}

func idString(id vaa.VAAID) string {
	return fmt.Sprintf("%d/%s/%d/%d", uint16(id.EmitterChain), hex.EncodeToString(id.EmitterAddress[:]), uint16(id.TargetChain), id.Sequence)
}

const vBlockDeadline = 15 * time.Second

func be8(x uint64) []byte { b := make([]byte, 8); binary.BigEndian.PutUint64(b, x); return b }

// canonical bytes of outputs, mirrored by WH.lib.ProcWire
func outObs(tag byte, o *gossipv1.SignedObservation) []byte {
	b := []byte{tag}
	for _, f := range [][]byte{o.Addr, o.Hash, o.Signature, o.TxHash} {
		b = append(b, be8(uint64(len(f)))...)
		b = append(b, f...)
	}
	return b
}

// run one op against the real code; record outputs and state projection
// handlers that did not return, over the whole test run: after three the remaining ops are not run any more (each would wait again)
var vBlockedTotal int32

func (dr *vDriver) do(op vOp, f func()) bool {
	if atomic.LoadInt32(&vBlockedTotal) >= 3 {
		return false
	}
	dr.h.Ops = append(dr.h.Ops, op)
	st := vStep{Outs: []string{}}
	var eps time.Duration
	// the handler runs on a goroutine of its own under a watchdog: a handler that never returns (the processor is ONE goroutine:
	// it would stall the whole signing pipeline) is reported, not waited for until the test binary's timeout
	blocked := false
	{
		done := make(chan struct{})
		var pv string
		go func() {
			defer close(done)
			defer func() {
				if x := recover(); x != nil {
					pv = fmt.Sprint(x)
				}
			}()
			t0 := time.Now()
			f()
			eps = time.Since(t0)
		}()
		select {
		case <-done:
			st.Panic = pv
		case <-time.After(vBlockDeadline):
			blocked = true
			atomic.AddInt32(&vBlockedTotal, 1)
			st.Panic = fmt.Sprintf("BLOCKED: the %s handler did not return within %v", op.K, vBlockDeadline)
		}
	}
	st.Eps = eps.Milliseconds()
	var sum uint64
	add := func(b []byte, s string) {
		sum = (sum + vhash(b)) % vHmod
		st.Outs = append(st.Outs, s)
	}
	// gossip sends
	nobs := 0
drain:
	for {
		select {
		case m := <-dr.sendC:
			var g gossipv1.GossipMessage
			if err := proto.Unmarshal(m, &g); err != nil {
				add([]byte{9}, "undecodable gossip message")
				continue
			}
			switch x := g.Message.(type) {
			case *gossipv1.GossipMessage_SignedObservation:
				nobs++
				add(outObs(1, x.SignedObservation), "sendobs "+hex.EncodeToString(x.SignedObservation.Hash)[:16])
				dr.monSendObs(x.SignedObservation)
				dr.lastObs = x.SignedObservation
			case *gossipv1.GossipMessage_SignedVaaWithQuorum:
				add(append([]byte{2}, x.SignedVaaWithQuorum.Vaa...), "sendvaa "+hex.EncodeToString(x.SignedVaaWithQuorum.Vaa)[:24])
				dr.monPublished(x.SignedVaaWithQuorum.Vaa, "broadcast", op)
			default:
				add([]byte{9}, "unexpected gossip message type")
			}
		default:
			break drain
		}
	}
	// re-observation requests
drain2:
	for {
		select {
		case r := <-dr.reqC:
			b := append([]byte{4}, be8(uint64(r.ChainId))...)
			b = append(b, r.TxHash...)
			add(b, fmt.Sprintf("obsreq %d %s", r.ChainId, hex.EncodeToString(r.TxHash)))
		default:
			break drain2
		}
	}
	// spawned own observations (one goroutine per broadcastSignature = per observation sent by a msg/inject op)
	if (op.K == "msg" || op.K == "inject") && st.Panic == "" {
		for i := 0; i < nobs; i++ {
			select {
			case o := <-dr.obsvC:
				dr.pending = append(dr.pending, o)
				add(outObs(5, o), "spawn "+hex.EncodeToString(o.Hash)[:16])
			case <-time.After(vLoopWait()):
				vLoopMisses++
				dr.h.Mon = append(dr.h.Mon, "C02: the node signed an observation but its own signature was not looped back into aggregation")
			}
		}
	}
	// store diff
	keys := make([]string, 0, len(dr.ids))
	for k := range dr.ids {
		keys = append(keys, k)
	}
	sort.Strings(keys)
	for _, k := range keys {
		id := dr.ids[k]
		vb, err := dr.d.GetSignedVAABytes(id)
		cur := ""
		if err == nil {
			cur = hex.EncodeToString(vb)
		} else if dr.dbDown {
			continue
		}
		if cur != dr.dbSnap[k] {
			if cur == "" {
				dr.h.Mon = append(dr.h.Mon, "stored VAA disappeared: "+idString(id))
			} else {
				b := append([]byte{3}, be8(uint64(id.EmitterChain))...)
				b = append(b, id.EmitterAddress[:]...)
				b = append(b, be8(uint64(id.TargetChain))...)
				b = append(b, be8(id.Sequence)...)
				b = append(b, vb...)
				add(b, "store "+idString(id)+" "+cur[:24])
				dr.monStored(id, vb, dr.dbSnap[k], op)
			}
			dr.dbSnap[k] = cur
		}
	}
	if st.Panic != "" {
		add([]byte{6}, "PANIC "+st.Panic)
		if blocked {
			dr.h.Mon = append(dr.h.Mon, "processor blocked (its single goroutine stalls, nothing is signed or published any more): "+st.Panic)
		} else {
			dr.h.Mon = append(dr.h.Mon, "processor panicked: "+st.Panic)
		}
	}
	sort.Strings(st.Outs)
	st.OutHash = sum
	// state projection
	st.StateHash, st.NEntries, st.State = dr.project()
	// C14: no handler may move the first-observed instant of an existing entry (the entry would never age); the cleanup op rewrites
	// the instants itself (virtual clock), every other op must leave them alone
	for dg, s := range dr.p.state.vaaSignatures {
		if t0, had := dr.foReal[dg]; had && op.K != "cleanup" && !s.firstObserved.Equal(t0) {
			dr.h.Mon = append(dr.h.Mon, "C14: the first-observed instant of an existing aggregation entry was moved by a "+op.K+" step (such an entry does not age)")
		}
		dr.foReal[dg] = s.firstObserved
	}
	for dg := range dr.foReal {
		if _, ok := dr.p.state.vaaSignatures[dg]; !ok {
			delete(dr.foReal, dg)
		}
	}
	// virtual clock bookkeeping
	for dg, s := range dr.p.state.vaaSignatures {
		if _, ok := dr.fs[dg]; !ok {
			dr.fs[dg] = dr.T
			// the entry's age runs on the node's clock from the moment the node first saw the digest: whatever else the implementation
			// put into firstObserved (a time taken from the message, say) is kept as a skew when the virtual clock rewrites the field
			if k := s.firstObserved.Sub(time.Now()); k > 5*time.Second || k < -5*time.Second {
				dr.skew[dg] = k.Round(time.Second)
			}
		}
	}
	for dg := range dr.fs {
		if _, ok := dr.p.state.vaaSignatures[dg]; !ok {
			delete(dr.fs, dg)
			delete(dr.skew, dg)
			delete(dr.lr, dg)
			// a new aggregation lifetime starts if the digest comes back
			delete(dr.accepted, dg)
			delete(dr.pubCount, dg)
			delete(dr.sawLocal, dg)
		}
	}
	dr.h.Steps = append(dr.h.Steps, st)
	return st.Panic == ""
}

func vLoopWait() time.Duration {
	if vLoopMisses >= 2 {
		return 100 * time.Millisecond
	}
	return 5 * time.Second
}

func (dr *vDriver) project() (uint64, int, []string) {
	var sum uint64
	var lines []string
	for dg, s := range dr.p.state.vaaSignatures {
		raw, _ := hex.DecodeString(dg)
		b := append([]byte{}, be8(uint64(len(raw)))...)
		b = append(b, raw...)
		fl := func(x bool) byte {
			if x {
				return 1
			}
			return 0
		}
		b = append(b, fl(s.submitted), fl(s.settled), fl(s.ourVAA != nil), fl(s.ourMsg != nil), fl(s.gs != nil), fl(!s.lastRetry.IsZero()))
		b = append(b, be8(uint64(s.retryCount))...)
		gi := uint64(0)
		nk := uint64(0)
		if s.gs != nil {
			gi = uint64(s.gs.Index)
			nk = uint64(len(s.gs.Keys))
		}
		b = append(b, be8(gi)...)
		b = append(b, be8(nk)...)
		var ss uint64
		signers := []string{}
		for a, sg := range s.signatures {
			ss = (ss + vhash(append(append([]byte{}, a[:]...), sg...))) % vHmod
			signers = append(signers, hex.EncodeToString(a[:])[:8])
		}
		b = append(b, be8(ss)...)
		sum = (sum + vhash(b)) % vHmod
		sort.Strings(signers)
		lines = append(lines, fmt.Sprintf("%s sub=%v set=%v vaa=%v msg=%v gs=%v/%d retries=%d lr=%v signers=%v", dg[:16], s.submitted, s.settled,
			s.ourVAA != nil, s.ourMsg != nil, s.gs != nil, gi, s.retryCount, !s.lastRetry.IsZero(), signers))
	}
	cur := []byte{0}
	if dr.p.gs != nil {
		cur = append([]byte{1}, be8(uint64(dr.p.gs.Index))...)
		cur = append(cur, be8(uint64(len(dr.p.gs.Keys)))...)
	}
	sum = (sum + vhash(cur)) % vHmod
	sort.Strings(lines)
	return sum, len(dr.p.state.vaaSignatures), lines
}

// ---------------------------------------------------------------- monitors (the property statements, on the implementation)
func quorumLiteral(n int) int { return 2*n/3 + 1 }

// C01: every stored / broadcast VAA verifies against a learned set
func (dr *vDriver) verifiesAgainst(v *vaa.VAA, gs *common.GuardianSet) bool {
	if gs == nil || len(v.Signatures) < quorumLiteral(len(gs.Keys)) {
		return false
	}
	d := vkeccak(vkeccak(v.SerializeBody()))
	last := -1
	seen := map[ethcommon.Address]bool{}
	for _, s := range v.Signatures {
		i := int(s.Index)
		if i <= last || i >= len(gs.Keys) {
			return false
		}
		last = i
		a := vrecover(d, s.Signature[:])
		if a == nil || ethcommon.BytesToAddress(a) != gs.Keys[i] || seen[gs.Keys[i]] {
			return false
		}
		seen[gs.Keys[i]] = true
	}
	return true
}

// independent wire parser (accepts an empty payload, which vaa.Unmarshal refuses)
func vparse(b []byte) (*vaa.VAA, bool) {
	if len(b) < 6 {
		return nil, false
	}
	v := &vaa.VAA{Version: b[0], GuardianSetIndex: binary.BigEndian.Uint32(b[1:5])}
	n := int(b[5])
	off := 6
	for i := 0; i < n; i++ {
		if len(b) < off+66 {
			return nil, false
		}
		s := &vaa.Signature{Index: b[off]}
		copy(s.Signature[:], b[off+1:off+66])
		v.Signatures = append(v.Signatures, s)
		off += 66
	}
	if len(b) < off+53 {
		return nil, false
	}
	v.Timestamp = time.Unix(int64(binary.BigEndian.Uint32(b[off:off+4])), 0)
	v.Nonce = binary.BigEndian.Uint32(b[off+4 : off+8])
	v.EmitterChain = vaa.ChainID(binary.BigEndian.Uint16(b[off+8 : off+10]))
	v.TargetChain = vaa.ChainID(binary.BigEndian.Uint16(b[off+10 : off+12]))
	copy(v.EmitterAddress[:], b[off+12:off+44])
	v.Sequence = binary.BigEndian.Uint64(b[off+44 : off+52])
	v.ConsistencyLevel = b[off+52]
	v.Payload = append([]byte{}, b[off+53:]...)
	return v, true
}

func (dr *vDriver) monPublished(b []byte, how string, op vOp) {
	v, okp := vparse(b)
	if !okp {
		dr.h.Mon = append(dr.h.Mon, "C01: "+how+" VAA is not in wire format")
		return
	}
	d := hex.EncodeToString(vkeccak(vkeccak(v.SerializeBody())))
	if op.K == "obs" || op.K == "loop" {
		// locally assembled: the set in force when the message was observed, and the set the VAA names
		gs := dr.localGS[d]
		if gs == nil && len(dr.sets) > 0 {
			// observed / injected before the node had learned any set: no set was in force then; the signatures are judged against the
			// set the node holds when it assembles the VAA (the latest set learned from chain)
			gs = dr.sets[len(dr.sets)-1]
		}
		if !dr.verifiesAgainst(v, gs) {
			dr.h.Mon = append(dr.h.Mon, "C01: locally assembled VAA ("+how+") does not carry a valid quorum of the set in force at observation time")
		} else {
			dr.validQuorum[d] = true
		}
		if !dr.verifiesAgainst(v, gs) {
		} else if dr.localIdx[d] && v.GuardianSetIndex != gs.Index {
			dr.h.Mon = append(dr.h.Mon, "C01: locally assembled VAA names another set than the one whose members signed")
		}
		if how == "broadcast" {
			dr.pubCount[d]++
			if dr.pubCount[d] > 1 {
				dr.h.Mon = append(dr.h.Mon, "C02: digest published twice within one aggregation lifetime")
			}
			if !dr.sawLocal[d] {
				dr.h.Mon = append(dr.h.Mon, "C02: published a VAA for a message the node has not observed")
			}
			if dr.bodyOf[d] != hex.EncodeToString(v.SerializeBody()) {
				dr.h.Mon = append(dr.h.Mon, "C02: published body differs from the node's own observation")
			}
		}
	} else if op.K == "inbound" {
		if !dr.verifiesAgainst(v, dr.p.gs) {
			dr.h.Mon = append(dr.h.Mon, "C01: inbound VAA stored although it does not verify against the current set")
		}
	} else {
		dr.h.Mon = append(dr.h.Mon, "C01: VAA "+how+" by an op that should not publish: "+op.K)
	}
}

func (dr *vDriver) monStored(id vaa.VAAID, vb []byte, before string, op vOp) {
	if op.K == "inbound" && before != "" {
		dr.h.Mon = append(dr.h.Mon, "C01: an already stored VAA was replaced by a peer's copy")
	}
	v, okp := vparse(vb)
	if !okp {
		dr.h.Mon = append(dr.h.Mon, "C01: stored bytes are not a VAA in wire format")
		return
	}
	if *db.VaaIDFromVAA(v) != id {
		dr.h.Mon = append(dr.h.Mon, "C01/C12: VAA stored under another identifier than its own")
	}
	dr.monPublished(vb, "store", op)
}

func (dr *vDriver) monSendObs(o *gossipv1.SignedObservation) {
	a := vrecover(o.Hash, o.Signature)
	if a == nil || ethcommon.BytesToAddress(a) != crypto.PubkeyToAddress(dr.own.PublicKey) || ethcommon.BytesToAddress(o.Addr) != ethcommon.BytesToAddress(a) {
		dr.h.Mon = append(dr.h.Mon, "own observation broadcast with a signature that does not recover to the node's address")
	}
}

// the set applicable to an observation of digest dg at this moment (snapshot of the entry if any, else current)
// Computed from the harness's OWN bookkeeping (the set it installed last, the set in force when it delivered the node's own
// observation or injection of that digest in the current aggregation lifetime), never from the entry's gs field: an implementation
// that pins a set on an entry it created for a peer's observation must not be believed about which set applies.
func (dr *vDriver) applicable(dg string) *common.GuardianSet {
	if dr.sawLocal[dg] {
		if g := dr.localGS[dg]; g != nil {
			return g
		}
	}
	if n := len(dr.sets); n > 0 {
		return dr.sets[n-1]
	}
	return nil
}

// ---------------------------------------------------------------- ops
func (dr *vDriver) opSetGS(gs *common.GuardianSet) bool {
	ks := []string{}
	for _, k := range gs.Keys {
		ks = append(ks, hex.EncodeToString(k[:]))
	}
	// the harness keeps its OWN copy of every set it installs (monitors judge against these copies): the object handed to the node
	// may be aliased, overwritten in place or re-used by the implementation, and that must not rewrite the reference
	own := &common.GuardianSet{Index: gs.Index, Keys: append([]ethcommon.Address{}, gs.Keys...)}
	given := &common.GuardianSet{Index: gs.Index, Keys: append([]ethcommon.Address{}, gs.Keys...)}
	return dr.do(vOp{K: "setgs", Keys: ks, Idx: gs.Index}, func() {
		// the Run loop's case: p.gs = <-p.setC ; p.gst.Set(p.gs)
		dr.p.gs = given
		dr.p.gst.Set(given)
		dr.sets = append(dr.sets, own)
	})
}

func (dr *vDriver) opClock(t int64) bool {
	dr.T = t
	return dr.do(vOp{K: "clock", T: t}, func() {})
}

func (dr *vDriver) vaaOfMsg(k *common.MessagePublication, idx uint32) *vaa.VAA {
	return &vaa.VAA{Version: vaa.SupportedVAAVersion, GuardianSetIndex: idx, Timestamp: k.Timestamp, Nonce: k.Nonce, EmitterChain: k.EmitterChain,
		TargetChain: k.TargetChain, EmitterAddress: k.EmitterAddress, Payload: k.Payload, Sequence: k.Sequence, ConsistencyLevel: k.ConsistencyLevel}
}

func (dr *vDriver) opMsg(k *common.MessagePublication) bool {
	op := vOp{K: "msg", Tx: hex.EncodeToString(k.TxHash[:]), Secs: k.Timestamp.Unix(), Nsec: int64(k.Timestamp.Nanosecond()), Nonce: k.Nonce,
		Seq: fmt.Sprint(k.Sequence), CL: k.ConsistencyLevel, EChain: uint16(k.EmitterChain), TChain: uint16(k.TargetChain),
		EAddr: hex.EncodeToString(k.EmitterAddress[:]), Payload: hex.EncodeToString(k.Payload)}
	// crypto tables for whatever the node may compute
	v := dr.vaaOfMsg(k, 0)
	d := dr.noteVAA(v)
	dr.noteSign(d)
	dg := hex.EncodeToString(d)
	nsend := len(dr.sendC)
	var gsBefore *common.GuardianSet // the harness's own copy of the set in force now (nil before the first set)
	if n := len(dr.sets); n > 0 {
		gsBefore = dr.sets[n-1]
	}
	isGov := k.EmitterAddress == dr.p.governanceEmitterAddress && k.EmitterChain == dr.p.governanceChainId
	ok := dr.do(op, func() { dr.p.handleMessage(dr.ctx, k) })
	_ = nsend
	st := dr.h.Steps[len(dr.h.Steps)-1]
	signed := false
	for _, o := range st.Outs {
		if len(o) > 8 && o[:8] == "sendobs " {
			signed = true
		}
	}
	if isGov && (signed || len(st.Outs) > 0) {
		dr.h.Mon = append(dr.h.Mon, "C02: a chain observation naming the governance emitter was signed")
	}
	if signed && dr.lastObs != nil && hex.EncodeToString(dr.lastObs.Hash) != dg {
		// C04: the VAA (hence the digest) is a function of the message's fields alone, the same on every guardian
		dr.h.Mon = append(dr.h.Mon, "C04: the digest the node signed for a chain message differs from the digest of the VAA built from the message's fields alone")
	}
	if signed {
		dr.txOf[dg] = hex.EncodeToString(k.TxHash[:])
		dr.chainOf[dg] = uint32(k.EmitterChain)
	}
	if signed {
		dr.localGS[dg] = gsBefore
		dr.localIdx[dg] = true
		dr.sawLocal[dg] = true
		dr.bodyOf[dg] = hex.EncodeToString(v.SerializeBody())
		if _, ok := dr.accepted[dg]; !ok {
			dr.accepted[dg] = map[ethcommon.Address]bool{}
		}
	}
	return ok
}

func (dr *vDriver) opInject(v *vaa.VAA) bool {
	op := vOp{K: "inject", Secs: v.Timestamp.Unix(), Nsec: int64(v.Timestamp.Nanosecond()), Nonce: v.Nonce, Seq: fmt.Sprint(v.Sequence), CL: v.ConsistencyLevel,
		EChain: uint16(v.EmitterChain), TChain: uint16(v.TargetChain), EAddr: hex.EncodeToString(v.EmitterAddress[:]), Payload: hex.EncodeToString(v.Payload),
		GsIdx: v.GuardianSetIndex}
	d := dr.noteVAA(v)
	dr.noteSign(d)
	dg := hex.EncodeToString(d)
	var gsBefore *common.GuardianSet // the harness's own copy of the set in force now (nil before the first set)
	if n := len(dr.sets); n > 0 {
		gsBefore = dr.sets[n-1]
	}
	ok := dr.do(op, func() { dr.p.handleInjection(dr.ctx, v) })
	if ok {
		st := dr.h.Steps[len(dr.h.Steps)-1]
		signed := false
		for _, o := range st.Outs {
			if len(o) > 8 && o[:8] == "sendobs " {
				signed = true
			}
		}
		if signed && dr.lastObs != nil && hex.EncodeToString(dr.lastObs.Hash) != dg {
			// C04: the digest is a function of the VAA's body fields alone - also for a VAA an operator injected (the digest the admin RPC reported to the operator)
			dr.h.Mon = append(dr.h.Mon, "C04: the digest the node signed for an injected VAA differs from the digest of the VAA that was injected (every body field, the target chain included, is part of what is signed)")
		}
	}
	dr.localGS[dg] = gsBefore
	dr.localIdx[dg] = false
	dr.sawLocal[dg] = true
	dr.bodyOf[dg] = hex.EncodeToString(v.SerializeBody())
	if _, ok := dr.accepted[dg]; !ok {
		dr.accepted[dg] = map[ethcommon.Address]bool{}
	}
	return ok
}

// C03 monitor + C02 bookkeeping around one observation delivery
func (dr *vDriver) deliver(op vOp, o *gossipv1.SignedObservation) bool {
	dg := hex.EncodeToString(o.Hash)
	dr.noteRec(o.Hash, o.Signature)
	gs := dr.applicable(dg)
	rec := vrecover(o.Hash, o.Signature)
	valid := false
	var who ethcommon.Address
	if rec != nil && gs != nil {
		who = ethcommon.BytesToAddress(o.Addr)
		if who == ethcommon.BytesToAddress(rec) {
			for _, k := range gs.Keys {
				if k == who {
					valid = true
				}
			}
		}
	}
	shBefore, neBefore, _ := dr.project()
	ok := dr.do(op, func() { dr.p.handleObservation(dr.ctx, o) })
	st := dr.h.Steps[len(dr.h.Steps)-1]
	if !valid && ok {
		if st.StateHash != shBefore || st.NEntries != neBefore || len(st.Outs) != 0 {
			dr.h.Mon = append(dr.h.Mon, "C03: an observation without a valid signature of a member of the applicable set changed state or produced output")
		}
	}
	if valid && ok {
		if _, have := dr.accepted[dg]; !have {
			dr.accepted[dg] = map[ethcommon.Address]bool{}
		}
		dr.accepted[dg][who] = true
		// C02: published exactly when seen locally and a quorum of distinct members of the observation-time set, own included, is in
		if dr.sawLocal[dg] {
			lgs := dr.localGS[dg]
			if lgs != nil {
				cnt := 0
				ownIn := false
				ownAddr := crypto.PubkeyToAddress(dr.own.PublicKey)
				for _, k := range lgs.Keys {
					if dr.accepted[dg][k] {
						cnt++
						if k == ownAddr {
							ownIn = true
						}
					}
				}
				ownMember := false
				for _, k := range lgs.Keys {
					if k == ownAddr {
						ownMember = true
					}
				}
				if cnt >= quorumLiteral(len(lgs.Keys)) && (ownIn || !ownMember) && dr.pubCount[dg] == 0 {
					dr.h.Mon = append(dr.h.Mon, fmt.Sprintf("C02: quorum of distinct members (%d of %d, own included) delivered for an observed message but no VAA was published", cnt, len(lgs.Keys)))
				}
			}
		}
	}
	return ok
}

func (dr *vDriver) opObs(o *gossipv1.SignedObservation, note string) bool {
	return dr.deliver(vOp{K: "obs", Addr: hex.EncodeToString(o.Addr), Hash: hex.EncodeToString(o.Hash), Sig: hex.EncodeToString(o.Signature),
		Tx: hex.EncodeToString(o.TxHash), Note: note}, o)
}

func (dr *vDriver) opLoop(n int) bool {
	if n >= len(dr.pending) {
		return dr.do(vOp{K: "loop", N: n}, func() {})
	}
	o := dr.pending[n]
	dr.pending = append(append([]*gossipv1.SignedObservation{}, dr.pending[:n]...), dr.pending[n+1:]...)
	return dr.deliver(vOp{K: "loop", N: n}, o)
}

// the harness's own decoding of bytes it is about to hand to the node: a decoder that panics on them must show up as a panic of the
// HANDLER (under the watchdog, as a finding), not take the test binary down here
func vSafeUnmarshal(b []byte) (v *vaa.VAA, err error) {
	defer func() {
		if x := recover(); x != nil {
			v, err = nil, fmt.Errorf("vaa.Unmarshal panicked: %v", x)
		}
	}()
	return vaa.Unmarshal(b)
}

func (dr *vDriver) opInbound(b []byte, note string) bool {
	if v, err := vSafeUnmarshal(b); err == nil {
		dr.noteVAA(v)
	}
	return dr.do(vOp{K: "inbound", Bytes: hex.EncodeToString(b), Note: note}, func() {
		dr.p.handleInboundSignedVAAWithQuorum(dr.ctx, &gossipv1.SignedVAAWithQuorum{Vaa: b})
	})
}

func (dr *vDriver) opCleanup() bool {
	type before struct {
		retries   uint
		submitted bool
		hasMsg    bool
		settled   bool
		inDB      bool
		age       int64
		lrAge     int64
	}
	bf := map[string]before{}
	ok := dr.do(vOp{K: "cleanup"}, func() {
		now := time.Now()
		for dg, s := range dr.p.state.vaaSignatures {
			s.firstObserved = now.Add(-time.Duration(dr.T-dr.fs[dg]) * time.Second).Add(dr.skew[dg])
			b := before{retries: s.retryCount, submitted: s.submitted, hasMsg: s.ourMsg != nil, settled: s.settled, age: dr.T - dr.fs[dg], lrAge: -1}
			if t, have := dr.lr[dg]; have {
				s.lastRetry = now.Add(-time.Duration(dr.T-t) * time.Second)
				b.lrAge = dr.T - t
			}
			if s.ourVAA != nil {
				if _, err := dr.d.GetSignedVAABytes(*db.VaaIDFromVAA(s.ourVAA)); err == nil {
					b.inDB = true
				}
			}
			bf[dg] = b
		}
		if dr.fillReq {
			for len(dr.reqC) < cap(dr.reqC) {
				dr.reqC <- &gossipv1.ObservationRequest{ChainId: 65535}
			}
		}
		dr.p.handleCleanup(dr.ctx)
	})
	st := dr.h.Steps[len(dr.h.Steps)-1]
	if st.Eps > 500 {
		dr.h.Mon = append(dr.h.Mon, "harness: cleanup took longer than 500 ms, virtual clock unreliable")
	}
	// C14 monitors, per entry
	for dg, b := range bf {
		s, alive := dr.p.state.vaaSignatures[dg]
		if alive && s.retryCount > b.retries {
			if tx, have := dr.txOf[dg]; have && !dr.h.Faults {
				want := fmt.Sprintf("obsreq %d %s", dr.chainOf[dg], tx)
				found := false
				for _, o := range st.Outs {
					if o == want {
						found = true
					}
				}
				if !found {
					dr.h.Mon = append(dr.h.Mon, "C14: the retry of a pending own observation did not issue a re-observation request for the originating transaction on the emitter chain")
				}
			}
			dr.lr[dg] = dr.T
			if b.age < 300 {
				dr.h.Mon = append(dr.h.Mon, "C14: own observation re-broadcast before the entry was five minutes old")
			}
			if b.lrAge >= 0 && b.lrAge < 300 {
				dr.h.Mon = append(dr.h.Mon, "C14: own observation re-broadcast less than five minutes after the previous retry")
			}
		}
		if b.hasMsg && b.submitted && !dr.validQuorum[dg] && !dr.lied[dg] && ok {
			// the harness's own verdict, not the entry's flag: nothing carrying a valid quorum of the applicable set was ever published for this digest
			dr.lied[dg] = true
			dr.h.Mon = append(dr.h.Mon, "C14: a signed entry is treated as completed (no further retries, dropped after an hour) although no VAA carrying a valid quorum of its guardian set was published for its message")
		}
		if b.hasMsg && !b.submitted && !b.inDB && b.retries < 14400 && !alive && ok {
			dr.h.Mon = append(dr.h.Mon, "C14: a signed, still pending entry was discarded before its retry budget was spent although no quorum VAA is stored")
		}
		if b.hasMsg && !b.submitted && !b.inDB && b.settled && b.age >= 300 && (b.lrAge < 0 || b.lrAge >= 300) && b.retries < 14400 && alive && s.retryCount == b.retries {
			dr.h.Mon = append(dr.h.Mon, "C14: a pending own observation that was due for its five-minute retry was not re-broadcast")
		}
		// whatever the settled flag says: due at two consecutive ticks (the first may only settle) and still not retried
		if b.hasMsg && !b.submitted && !b.inDB && b.age >= 300 && (b.lrAge < 0 || b.lrAge >= 300) && b.retries < 14400 && alive && s.retryCount == b.retries && ok {
			dr.dueMiss[dg]++
			if dr.dueMiss[dg] == 2 {
				dr.h.Mon = append(dr.h.Mon, "C14: a pending own observation was due for its five-minute retry at two consecutive ticks and was not re-broadcast")
			}
		} else {
			delete(dr.dueMiss, dg)
		}
		if !b.hasMsg && !b.submitted && !b.inDB && b.age < 295 && !alive && ok {
			dr.h.Mon = append(dr.h.Mon, fmt.Sprintf("C02: the signatures parked for a message the node has not observed yet were discarded after %d s: they are kept for about five minutes, so that the node's own observation, whenever it comes within that time, can still complete the quorum", b.age))
		}
		if !b.hasMsg && b.settled && b.age >= 300 && alive && ok {
			dr.h.Mon = append(dr.h.Mon, "C14: an entry for a message the node never observed survived a tick past five minutes")
		}
		if b.submitted && b.settled && b.age >= 3600 && alive && ok {
			dr.h.Mon = append(dr.h.Mon, "C14: a completed entry survived a tick past one hour")
		}
	}
	return ok
}

func (dr *vDriver) finish() *vHistory {
	for k, v := range dr.keccakT {
		dr.h.Keccak = append(dr.h.Keccak, [2]string{k, v})
	}
	sort.Slice(dr.h.Keccak, func(i, j int) bool { return dr.h.Keccak[i][0] < dr.h.Keccak[j][0] })
	for k, v := range dr.signT {
		dr.h.Sign = append(dr.h.Sign, [2]string{k, v})
	}
	sort.Slice(dr.h.Sign, func(i, j int) bool { return dr.h.Sign[i][0] < dr.h.Sign[j][0] })
	for k, v := range dr.recT {
		var h, s string
		for i := 0; i < len(k); i++ {
			if k[i] == '|' {
				h, s = k[:i], k[i+1:]
			}
		}
		dr.h.Rec = append(dr.h.Rec, [3]string{h, s, v})
	}
	sort.Slice(dr.h.Rec, func(i, j int) bool { return dr.h.Rec[i][0]+dr.h.Rec[i][1] < dr.h.Rec[j][0]+dr.h.Rec[j][1] })
	if dr.h.Mon == nil {
		dr.h.Mon = []string{}
	}
	return dr.h
}

var _ = filepath.Join

// obtain a context that supervisor.Logger accepts
func vWithSupervisor(t *testing.T, f func(ctx context.Context)) {
	ctx, cancel := context.WithCancel(context.Background())
	defer cancel()
	done := make(chan struct{})
	ran := false
	supervisor.New(ctx, zap.NewNop(), func(ctx context.Context) error {
		if !ran {
			ran = true
			func() {
				defer func() {
					if x := recover(); x != nil {
						t.Errorf("harness panicked: %v", x)
					}
				}()
				f(ctx)
			}()
			close(done)
		}
		supervisor.Signal(ctx, supervisor.SignalHealthy)
		<-ctx.Done()
		return ctx.Err()
	})
	select {
	case <-done:
	case <-time.After(3600 * time.Second):
		t.Fatal("harness timeout")
	}
}
