//go:build verif

package processor

import (
	"encoding/json"
	"os"
	"strconv"
	"testing"
)

type verifSplitMix struct{ s uint64 }

func (r *verifSplitMix) next() uint64 {
	r.s += 0x9E3779B97F4A7C15
	z := r.s
	z = (z ^ (z >> 30)) * 0xBF58476D1CE4E5B9
	z = (z ^ (z >> 27)) * 0x94D049BB133111EB
	return z ^ (z >> 31)
}

// TestVerifC07 evaluates the real CalculateQuorum on n = 0..255 exhaustively and on random n < 2^31
func TestVerifC07(t *testing.T) {
	seed, _ := strconv.ParseUint(os.Getenv("VERIF_SEED"), 10, 64)
	rng := &verifSplitMix{s: seed}
	nrand := 2000
	if os.Getenv("VERIF_TIER") == "thorough" {
		nrand = 200000
	}
	f, err := os.Create(os.Getenv("VERIF_OUT"))
	if err != nil {
		t.Fatal(err)
	}
	defer f.Close()
	enc := json.NewEncoder(f)
	for n := 0; n <= 255; n++ {
		enc.Encode(map[string]int64{"n": int64(n), "q": int64(CalculateQuorum(n))})
	}
	for i := 0; i < nrand; i++ {
		n := int(rng.next() % (1 << 31))
		if i%4 == 0 {
			n = int(rng.next() % 70000)
		}
		enc.Encode(map[string]int64{"n": int64(n), "q": int64(CalculateQuorum(n))})
	}
}
