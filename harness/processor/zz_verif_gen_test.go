//go:build verif

package processor

import (
	"context"
	"crypto/ecdsa"
	"fmt"
	"testing"
	"time"

	"github.com/alephium/wormhole-fork/node/pkg/common"
	gossipv1 "github.com/alephium/wormhole-fork/node/pkg/proto/gossip/v1"
	"github.com/alephium/wormhole-fork/node/pkg/vaa"
	ethcommon "github.com/ethereum/go-ethereum/common"
	"github.com/ethereum/go-ethereum/crypto"
)

type vWorld struct {
	r       *vrng
	keys    []*ecdsa.PrivateKey // pool of guardian keys
	own     *ecdsa.PrivateKey
	govCh   vaa.ChainID
	govAddr vaa.Address
}

func (w *vWorld) set(members []int, idx uint32) *common.GuardianSet {
	gs := &common.GuardianSet{Index: idx}
	for _, m := range members {
		if m < 0 {
			gs.Keys = append(gs.Keys, crypto.PubkeyToAddress(w.own.PublicKey))
		} else {
			gs.Keys = append(gs.Keys, crypto.PubkeyToAddress(w.keys[m].PublicKey))
		}
	}
	return gs
}
func (w *vWorld) key(m int) *ecdsa.PrivateKey {
	if m < 0 {
		return w.own
	}
	return w.keys[m]
}

func (w *vWorld) msg(kind int) *common.MessagePublication {
	r := w.r
	k := &common.MessagePublication{Nonce: uint32(r.next()), Sequence: uint64(r.below(1000)), ConsistencyLevel: uint8(r.next()),
		EmitterChain: vaa.ChainID([]uint16{1, 2, 4, 255, 10001}[r.below(5)]), TargetChain: vaa.ChainID([]uint16{0, 2, 255}[r.below(3)])}
	copy(k.TxHash[:], r.bytes(32))
	copy(k.EmitterAddress[:], r.bytes(32))
	secs := int64(1600000000 + r.below(100000000))
	nsec := int64(0)
	if r.chance(1, 2) {
		nsec = int64(r.below(1000000000))
	}
	k.Timestamp = time.Unix(secs, nsec)
	switch kind {
	case 1: // empty payload
		k.Payload = []byte{}
	case 2: // nil payload
		k.Payload = nil
	case 3: // long payload
		k.Payload = r.bytes(1001 + r.below(300))
	case 4: // governance emitter
		k.EmitterChain = w.govCh
		k.EmitterAddress = w.govAddr
		k.Payload = r.bytes(1 + r.below(40))
	case 5: // extreme timestamp
		k.Timestamp = time.Unix([]int64{0, -1, 1 << 32, 1<<32 + 5, 253402300799}[r.below(5)], 0)
		if r.chance(1, 4) {
			k.Timestamp = time.Time{} // the zero time (year 1): a watcher that could not read a block time
		}
		k.Payload = r.bytes(1 + r.below(40))
	default:
		k.Payload = r.bytes(1 + r.below(60))
	}
	return k
}

func (w *vWorld) obsBy(m int, d []byte, tx []byte) *gossipv1.SignedObservation {
	k := w.key(m)
	s, _ := crypto.Sign(d, k)
	return &gossipv1.SignedObservation{Addr: crypto.PubkeyToAddress(k.PublicKey).Bytes(), Hash: d, Signature: s, TxHash: tx, MessageId: "x"}
}

func digestOfMsg(k *common.MessagePublication, idx uint32) []byte {
	v := &vaa.VAA{Version: vaa.SupportedVAAVersion, GuardianSetIndex: idx, Timestamp: k.Timestamp, Nonce: k.Nonce, EmitterChain: k.EmitterChain,
		TargetChain: k.TargetChain, EmitterAddress: k.EmitterAddress, Payload: k.Payload, Sequence: k.Sequence, ConsistencyLevel: k.ConsistencyLevel}
	return vkeccak(vkeccak(v.SerializeBody()))
}

// a quorum-signed VAA for message k under the given set, signed by the listed positions
func (w *vWorld) signedVAA(k *common.MessagePublication, gs *common.GuardianSet, members []int, positions []int) []byte {
	v := &vaa.VAA{Version: vaa.SupportedVAAVersion, GuardianSetIndex: gs.Index, Timestamp: k.Timestamp, Nonce: k.Nonce, EmitterChain: k.EmitterChain,
		TargetChain: k.TargetChain, EmitterAddress: k.EmitterAddress, Payload: k.Payload, Sequence: k.Sequence, ConsistencyLevel: k.ConsistencyLevel}
	for _, p := range positions {
		v.AddSignature(w.key(members[p]), uint8(p))
	}
	b, _ := v.Marshal()
	return b
}

func vContains(l []int, x int) bool {
	for _, y := range l {
		if y == x {
			return true
		}
	}
	return false
}

// one generated history; shape describes what it exercises
func vGenHistory(t *testing.T, ctx context.Context, w *vWorld, id int) *vHistory {
	r := w.r
	dr := vNewDriver(t, ctx, w.own, w.govCh, w.govAddr, id)
	defer dr.close()
	// guardian set: size 1..19, own key at a random position or absent
	sizes := []int{1, 1, 2, 3, 3, 4, 5, 6, 7, 9, 13, 19}
	n := sizes[r.below(len(sizes))]
	if verifThorough() {
		n = 1 + id%19
	}
	perm := r.below(len(w.keys) - 26)
	members := make([]int, n)
	for i := range members {
		members[i] = perm + i
	}
	ownPos := r.below(n + 1)
	if verifThorough() {
		ownPos = (id / 19) % (n + 1)
	}
	if ownPos < n {
		members[ownPos] = -1
	}
	gs0 := w.set(members, uint32(r.below(5)))
	// a successor set: drops one member, adds another
	members1 := append([]int{}, members...)
	if n > 1 {
		members1[r.below(n)] = perm + n + 1
	} else {
		members1 = append(members1, perm+n+1)
	}
	// ... and every third history changes the size of the set as well (shrinks to about half, or grows by two)
	switch r.below(6) {
	case 0:
		if n >= 3 {
			keep := (n + 1) / 2
			var mm []int
			for _, m := range members1 {
				if len(mm) < keep || m == -1 && !vContains(mm, -1) {
					mm = append(mm, m)
				}
			}
			members1 = mm
		}
	case 1:
		members1 = append(members1, perm+n+2, perm+n+3)
	}
	gs1 := w.set(members1, gs0.Index+1)
	shape := fmt.Sprintf("n=%d own=%d", n, ownPos)

	type pend struct {
		k   *common.MessagePublication
		dg  []byte
		obs []*gossipv1.SignedObservation
	}
	var msgs []*pend
	nm := 1 + r.below(3)
	for i := 0; i < nm; i++ {
		kind := 0
		switch r.below(12) {
		case 0:
			kind = 1
		case 1:
			kind = 2
		case 2:
			kind = 3
		case 3:
			kind = 4
		case 4:
			kind = 5
		}
		k := w.msg(kind)
		pd := &pend{k: k}
		msgs = append(msgs, pd)
	}
	setKnown := false
	T := int64(1000)
	dr.opClock(T)
	// most histories learn the set first; some start without one
	if !r.chance(1, 8) {
		if !dr.opSetGS(gs0) {
			return dr.finish()
		}
		setKnown = true
	} else {
		shape += " late-set"
	}
	curMembers := members
	curSet := gs0
	// build a bag of events, then play them in random order
	type ev struct {
		kind string
		mi   int
		pos  int
		arg  int
	}
	var bag []ev
	for mi := range msgs {
		bag = append(bag, ev{kind: "msg", mi: mi})
		if r.chance(1, 3) {
			bag = append(bag, ev{kind: "msg", mi: mi}) // re-observation
		}
		q := 2*n/3 + 1
		// signer subset around the quorum boundary (other guardians; the own signature comes through the loopback)
		want := q - 1 + r.below(3) - 1
		if r.chance(1, 3) {
			want = n
		}
		cnt := 0
		for p := 0; p < n && cnt < want; p++ {
			if members[p] >= 0 {
				bag = append(bag, ev{kind: "obs", mi: mi, pos: p})
				cnt++
				if r.chance(1, 5) {
					bag = append(bag, ev{kind: "obs", mi: mi, pos: p}) // duplicate
				}
			}
		}
		for j := 0; j < 1+r.below(3); j++ {
			bag = append(bag, ev{kind: "junk", mi: mi, arg: r.below(9)})
		}
		if r.chance(1, 3) {
			bag = append(bag, ev{kind: "inbound", mi: mi, arg: r.below(12)})
		}
		bag = append(bag, ev{kind: "loop"})
	}
	if r.chance(1, 3) {
		bag = append(bag, ev{kind: "setgs1"})
		shape += " set-change"
	}
	if r.chance(1, 4) {
		bag = append(bag, ev{kind: "inject", arg: r.below(3)})
		shape += " inject"
	}
	if !setKnown {
		bag = append(bag, ev{kind: "setgs0"})
	}
	ncl := r.below(4)
	for j := 0; j < ncl; j++ {
		bag = append(bag, ev{kind: "cleanup", arg: r.below(10)})
	}
	for i := len(bag) - 1; i > 0; i-- {
		j := r.below(i + 1)
		bag[i], bag[j] = bag[j], bag[i]
	}
	// tail: loopbacks and a cleanup schedule so that entries age through every threshold
	for j := 0; j < 3; j++ {
		bag = append(bag, ev{kind: "loop"})
	}
	tail := r.below(4)
	for j := 0; j < 2+2*tail; j++ {
		bag = append(bag, ev{kind: "cleanup", arg: r.below(10)})
	}
	ages := []int64{29, 31, 1, 30, 269, 299, 300, 301, 3300, 3601}
	for _, e := range bag {
		ok := true
		switch e.kind {
		case "setgs0":
			ok = dr.opSetGS(gs0)
			setKnown = true
		case "setgs1":
			ok = dr.opSetGS(gs1)
			curMembers = members1
			curSet = gs1
			setKnown = true
		case "msg":
			ok = dr.opMsg(msgs[e.mi].k)
		case "obs":
			// other guardians sign the digest every honest guardian computes (independent of the set index)
			d := digestOfMsg(msgs[e.mi].k, 0)
			ok = dr.opObs(w.obsBy(members[e.pos], d, msgs[e.mi].k.TxHash[:]), "member")
		case "loop":
			if len(dr.pending) > 0 {
				ok = dr.opLoop(r.below(len(dr.pending)))
			}
		case "junk":
			d := digestOfMsg(msgs[e.mi].k, 0)
			p := r.below(n)
			o := w.obsBy(members[p], d, msgs[e.mi].k.TxHash[:])
			note := ""
			switch e.arg {
			case 0: // forged signature bytes
				o.Signature = r.bytes(65)
				o.Signature[64] = byte(r.below(2))
				note = "forged"
			case 1: // non-member with a valid signature
				o = w.obsBy(perm+n+5, d, nil)
				note = "non-member"
			case 2: // member signing with another member's address
				o.Addr = crypto.PubkeyToAddress(w.key(members[(p+1)%n]).PublicKey).Bytes()
				note = "wrong-address"
			case 3: // valid signature over another digest
				d2 := r.bytes(32)
				o = w.obsBy(members[p], d2, nil)
				o.Hash = d
				note = "other-digest"
			case 4: // short hash
				o.Hash = d[:31]
				note = "short-hash"
			case 5: // signature length 64 / 66
				if r.chance(1, 2) {
					o.Signature = o.Signature[:64]
				} else {
					o.Signature = append(o.Signature, 0)
				}
				note = "sig-length"
			case 6: // recovery id >= 4
				o.Signature = append([]byte{}, o.Signature...)
				o.Signature[64] = byte(4 + r.below(200))
				note = "recid"
			case 7: // address field of odd length (cropped / padded by BytesToAddress)
				if r.chance(1, 2) {
					o.Addr = append([]byte{0xaa, 0xbb}, o.Addr...)
				} else {
					o.Addr = o.Addr[1:]
				}
				note = "addr-length"
			case 8: // valid observation over a digest nobody observed
				o = w.obsBy(members[p], r.bytes(32), r.bytes(32))
				note = "unknown-digest"
			}
			ok = dr.opObs(o, note)
		case "inbound":
			k := msgs[e.mi].k
			q := 2*len(curSet.Keys)/3 + 1
			all := make([]int, len(curSet.Keys))
			for i := range all {
				all[i] = i
			}
			switch e.arg {
			case 0, 1: // valid, exactly quorum / all
				pos := all
				if e.arg == 0 {
					pos = all[:q]
				}
				ok = dr.opInbound(w.signedVAA(k, curSet, curMembers, pos), "valid")
			case 2: // under quorum; every other time the last signature record names a guardian index the set does not have
				if q >= 2 {
					b := w.signedVAA(k, curSet, curMembers, all[:q-1])
					note := "under-quorum"
					if n := len(curSet.Keys); len(b) > 6+66*(q-2) && n < 255 && r.chance(1, 2) {
						b[6+66*(q-2)] = byte(n + r.below(256-n))
						note = "under-quorum-index-outside-the-set"
					}
					ok = dr.opInbound(b, note)
				}
			case 3: // signed by the other set
				other, om := gs0, members
				if curSet == gs0 {
					other, om = gs1, members1
				}
				oq := 2*len(other.Keys)/3 + 1
				pos := make([]int, oq)
				for i := range pos {
					pos[i] = i
				}
				ok = dr.opInbound(w.signedVAA(k, other, om, pos), "other-set")
			case 4: // garbage
				ok = dr.opInbound(r.bytes(r.below(200)), "garbage")
			case 5: // valid VAA with one corrupted signature
				b := w.signedVAA(k, curSet, curMembers, all)
				if len(b) > 72 { // (an encoder that refuses the VAA returns nothing: nothing to corrupt)
					b[6+1+r.below(64)] ^= 1
					ok = dr.opInbound(b, "bad-signature")
				}
			case 7: // a single valid signature of a current member, wrapped into a VAA that names another set index: far below quorum
				v := dr.vaaOfMsg(k, curSet.Index+1+uint32(r.below(2)))
				pos := r.below(len(curSet.Keys))
				v.AddSignature(w.key(curMembers[pos]), uint8(pos))
				b, _ := v.Marshal()
				if q >= 2 {
					ok = dr.opInbound(b, "other-index-under-quorum")
				}
			case 8: // a valid quorum VAA cut short: anywhere from inside the header to one byte before the end (most cuts fall inside the signature block)
				b := w.signedVAA(k, curSet, curMembers, all)
				if len(b) > 2 {
					cut := 1 + r.below(len(b)-1)
					if r.below(2) == 0 && len(b) > 60 {
						cut = 57 + r.below(len(b)-57) // long enough to pass the length floor
					}
					ok = dr.opInbound(b[:cut], "truncated")
				}
			case 9: // the signature count byte announces more signatures than the bytes hold
				b := w.signedVAA(k, curSet, curMembers, all[:q])
				if len(b) >= 57 {
					switch r.below(3) {
					case 0:
						b[5] = 255
					case 1:
						b[5] = byte(q + 1 + r.below(8))
					default:
						b = b[:57]
						b[5] = 255
					}
					ok = dr.opInbound(b, "count-inflated")
				}
			case 10, 11: // MORE than quorum signatures: a fully valid first quorum, then a bad tail (outsider at a member's index, a signature over another digest, or an all-zero signature)
				if len(all) > q {
					v := &vaa.VAA{Version: vaa.SupportedVAAVersion, GuardianSetIndex: curSet.Index, Timestamp: k.Timestamp, Nonce: k.Nonce, EmitterChain: k.EmitterChain,
						TargetChain: k.TargetChain, EmitterAddress: k.EmitterAddress, Payload: k.Payload, Sequence: k.Sequence, ConsistencyLevel: k.ConsistencyLevel}
					for _, p := range all[:q] {
						v.AddSignature(w.key(curMembers[p]), uint8(p))
					}
					switch r.below(3) {
					case 0:
						out := len(w.keys) - 1
						for vContains(curMembers, out) {
							out--
						}
						v.AddSignature(w.key(out), uint8(q)) // an outsider signs at a member's position
					case 1:
						v2 := *v
						v2.Nonce++
						v2.Signatures = nil
						v2.AddSignature(w.key(curMembers[q]), uint8(q)) // the member's signature, but over another body
						v.Signatures = append(v.Signatures, v2.Signatures[0])
					default:
						v.Signatures = append(v.Signatures, &vaa.Signature{Index: uint8(q)})
					}
					b, _ := v.Marshal()
					ok = dr.opInbound(b, "valid-quorum-prefix-bad-tail")
				}
			case 6: // different body for an id that may already be stored
				k2 := *k
				k2.Payload = append([]byte{1}, r.bytes(10)...)
				ok = dr.opInbound(w.signedVAA(&k2, curSet, curMembers, all), "same-id-other-body")
			}
		case "inject":
			v := &vaa.VAA{Version: vaa.SupportedVAAVersion, GuardianSetIndex: curSet.Index + uint32(e.arg), Timestamp: time.Unix(int64(r.below(1<<31)), 0),
				Nonce: uint32(r.next()), Sequence: r.next(), ConsistencyLevel: 32, EmitterChain: w.govCh, EmitterAddress: w.govAddr,
				TargetChain: vaa.ChainID(r.below(3)), Payload: r.bytes(33 + r.below(40))}
			ok = dr.opInject(v)
		case "cleanup":
			T += ages[e.arg]
			dr.opClock(T)
			ok = dr.opCleanup()
		}
		if !ok {
			break
		}
	}
	h := dr.finish()
	h.Shape = shape
	return h
}

func TestVerifProc(t *testing.T) {
	o := verifOut(t)
	defer o.close()
	r := &vrng{s: verifSeed() ^ 0x9c0c}
	w := &vWorld{r: r, govCh: vaa.ChainIDSolana}
	w.govAddr[31] = 4
	for i := 0; i < 64; i++ {
		w.keys = append(w.keys, vkey(r))
	}
	w.own = vkey(r)
	n := 120
	if verifThorough() {
		n = 19 * 20 * 4
	}
	vWithSupervisor(t, func(ctx context.Context) {
		vRunScripts(t, ctx, w, o, 100000)
		for i := 0; i < n; i++ {
			o.emit(vGenHistory(t, ctx, w, i))
		}
	})
	_ = ethcommon.Address{}
}
