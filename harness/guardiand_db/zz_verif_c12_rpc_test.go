//go:build verif

package guardiand

import (
	"context"
	"encoding/hex"
	"os"
	"testing"

	"github.com/alephium/wormhole-fork/node/pkg/db"
	nodev1 "github.com/alephium/wormhole-fork/node/pkg/proto/node/v1"
	publicrpcv1 "github.com/alephium/wormhole-fork/node/pkg/proto/publicrpc/v1"
	"github.com/alephium/wormhole-fork/node/pkg/publicrpc"
	"github.com/alephium/wormhole-fork/node/pkg/vaa"
	"go.uber.org/zap"
	"google.golang.org/grpc/codes"
	"google.golang.org/grpc/status"
)

func TestVerifNothing(t *testing.T) {}

func verifC12Store(d *db.Database, v *vaa.VAA) (panicked bool, err error) {
	defer func() {
		if r := recover(); r != nil {
			panicked = true
		}
	}()
	err = d.StoreSignedVAA(v)
	return
}

func verifC12Code(err error) int {
	switch status.Code(err) {
	case codes.OK:
		return 0
	case codes.NotFound:
		return 1
	case codes.InvalidArgument:
		return 2
	default:
		return 3
	}
}

// the four request kinds through the real PublicrpcServer methods and the real nodePrivilegedService.FindMissingMessages
func verifC12RunRpc(d *db.Database, p *verifC12Plan, q *verifC12Query) {
	defer func() {
		if r := recover(); r != nil {
			q.Code = 4
		}
	}()
	ctx := context.Background()
	ahex := hex.EncodeToString(p.Pool[q.AI][:])
	if q.AHex == "-" {
		ahex = ""
	} else if q.AHex != "" {
		ahex = q.AHex
	}
	switch q.T {
	case "get":
		srv := publicrpc.NewPublicrpcServer(zap.NewNop(), d, nil, vaa.ChainIDAlephium, vaa.Address{})
		resp, err := srv.GetSignedVAA(ctx, &publicrpcv1.GetSignedVAARequest{MessageId: &publicrpcv1.MessageID{
			EmitterChain: publicrpcv1.ChainID(q.EC), EmitterAddress: ahex, TargetChain: publicrpcv1.ChainID(q.TC), Sequence: q.Seq}})
		q.Code = verifC12Code(err)
		if err == nil {
			q.B = hex.EncodeToString(resp.VaaBytes)
		}
	case "batch":
		srv := publicrpc.NewPublicrpcServer(zap.NewNop(), d, nil, vaa.ChainIDAlephium, vaa.Address{})
		resp, err := srv.GetNonGovernanceVAABatch(ctx, &publicrpcv1.GetNonGovernanceVAABatchRequest{
			EmitterChain: publicrpcv1.ChainID(q.EC), EmitterAddress: ahex, TargetChain: publicrpcv1.ChainID(q.TC), Sequences: q.Seqs})
		q.Code = verifC12Code(err)
		if err == nil {
			for _, e := range resp.Entries {
				q.Ents = append(q.Ents, verifC12Ent{0, e.Sequence, hex.EncodeToString(e.VaaBytes)})
			}
		}
	case "gov":
		// the governance emitter is configuration of the server: one server per asked emitter
		srv := publicrpc.NewPublicrpcServer(zap.NewNop(), d, nil, vaa.ChainID(q.EC), p.Pool[q.AI])
		resp, err := srv.GetGovernanceVAABatch(ctx, &publicrpcv1.GetGovernanceVAABatchRequest{Sequences: q.Seqs})
		q.Code = verifC12Code(err)
		if err == nil {
			for _, e := range resp.Entries {
				q.Ents = append(q.Ents, verifC12Ent{uint32(e.TargetChain), e.Sequence, hex.EncodeToString(e.VaaBytes)})
			}
		}
	case "gap":
		s := &nodePrivilegedService{db: d, logger: zap.NewNop()}
		resp, err := s.FindMissingMessages(ctx, &nodev1.FindMissingMessagesRequest{EmitterChain: q.EC, TargetChain: q.TC, EmitterAddress: ahex})
		q.Code = verifC12Code(err)
		if err == nil {
			q.IDs = resp.MissingMessages
			if q.IDs == nil {
				q.IDs = []string{}
			}
			q.First, q.Last = resp.FirstSequence, resp.LastSequence
		}
	}
}

// TestVerifC12Rpc : stores from the same generator as TestVerifC12, asked through the RPC layer (plus the request shapes that only exist there)
func TestVerifC12Rpc(t *testing.T) {
	o, err := verifC12Open()
	if err != nil {
		t.Fatal(err)
	}
	defer o.close()
	if devnull, err := os.OpenFile(os.DevNull, os.O_WRONLY, 0); err == nil {
		saved := os.Stdout
		os.Stdout = devnull
		defer func() { os.Stdout = saved; devnull.Close() }()
	}
	r := &verifC12Rng{s: verifC12Seed() ^ 0xC12}
	base, err := os.MkdirTemp(os.Getenv("VERIF_TMP"), "c12rpc")
	if err != nil {
		t.Fatal(err)
	}
	defer os.RemoveAll(base)
	one := func(p *verifC12Plan, qs []*verifC12Query) {
		dir, _ := os.MkdirTemp(base, "s")
		d, err := db.Open(dir)
		if err != nil {
			t.Fatal(err)
		}
		tr := verifC12NewTruth()
		row := &verifC12Row{K: "store", H: "rpc", Idx: p.Idx, Theme: p.Theme, Mon: []string{}, MonQ: []int{}}
		for _, op := range p.Ops {
			b, _ := op.V.Marshal()
			panicked, err := verifC12Store(d, op.V)
			or := &verifC12OpRow{Panic: panicked, Err: err != nil}
			if op.Odd == "" {
				or.B = hex.EncodeToString(b)
			} else {
				or.Odd = op.Odd
				or.V = verifC12VaaFields(op.V)
				or.MB = hex.EncodeToString(b)
			}
			row.Ops = append(row.Ops, or)
			if !panicked && err == nil {
				tr.stored(op.V, b)
			}
		}
		if qs == nil {
			qs = verifC12Queries(r, p, true)
		}
		row.Q = qs
		for qi, q := range row.Q {
			verifC12RunRpc(d, p, q)
			// the reference speaks about well-formed requests: a 32-byte address and 16-bit chain numbers, at most 20 sequences
			wf := q.AHex == "" && q.EC < 65536 && q.TC < 65536 && len(q.Seqs) <= 20
			mq := *q
			if q.T == "gap" && q.Code == 0 {
				// the admin call renders the missing numbers as message ids: project back to numbers for the reference
				mq.Resp = []uint64{}
				for _, id := range q.IDs {
					vid, err := vaa.VaaIDFromString(id)
					if err != nil || uint32(vid.EmitterChain) != q.EC || uint32(vid.TargetChain) != q.TC || vid.EmitterAddress != p.Pool[q.AI] {
						if wf {
							row.Mon = append(row.Mon, "FindMissingMessages returned the id "+id+" which does not name the requested stream")
							row.MonQ = append(row.MonQ, qi)
						}
						continue
					}
					mq.Resp = append(mq.Resp, vid.Sequence)
				}
			}
			for _, m := range verifC12Monitor(tr, p, &mq, wf) {
				row.Mon = append(row.Mon, m)
				row.MonQ = append(row.MonQ, qi)
			}
		}
		row.Pool = verifC12PoolHex(p)
		o.emit(row)
		d.Close()
		os.RemoveAll(dir)
	}
	if p, qs := verifC12LoadReplay("rpc"); p != nil {
		one(p, qs)
		return
	}
	for idx := 0; idx < verifC12NStores(); idx++ {
		one(verifC12MakePlan(r, idx), nil)
	}
}
