//go:build verif

package guardiand

import (
	"context"
	"encoding/hex"
	"encoding/json"
	"fmt"
	"os"
	"testing"

	"github.com/alephium/wormhole-fork/node/pkg/db"
	nodev1 "github.com/alephium/wormhole-fork/node/pkg/proto/node/v1"
	publicrpcv1 "github.com/alephium/wormhole-fork/node/pkg/proto/publicrpc/v1"
	"github.com/alephium/wormhole-fork/node/pkg/publicrpc"
	"github.com/alephium/wormhole-fork/node/pkg/vaa"
	"go.uber.org/zap"
	"google.golang.org/grpc/codes"
	"google.golang.org/grpc/status"
)

func TestVerifNothing(t *testing.T) {}

func verifC12Store(d *db.Database, v *vaa.VAA) (panicked bool, err error) {
	defer func() {
		if r := recover(); r != nil {
			panicked = true
		}
	}()
	err = d.StoreSignedVAA(v)
	return
}

func verifC12Code(err error) int {
	switch status.Code(err) {
	case codes.OK:
		return 0
	case codes.NotFound:
		return 1
	case codes.InvalidArgument:
		return 2
	default:
		return 3
	}
}

// the servers of one node: they live as long as the store does (state kept inside a server between requests is part of what is tested)
type verifC12Srvs struct {
	d     *db.Database
	plain *publicrpc.PublicrpcServer
	gov   map[string]*publicrpc.PublicrpcServer
	admin *nodePrivilegedService
}

func verifC12NewSrvs(d *db.Database) *verifC12Srvs {
	return &verifC12Srvs{d: d, plain: publicrpc.NewPublicrpcServer(zap.NewNop(), d, nil, vaa.ChainIDAlephium, vaa.Address{}),
		gov: map[string]*publicrpc.PublicrpcServer{}, admin: &nodePrivilegedService{db: d, logger: zap.NewNop()}}
}

// the four request kinds through the real PublicrpcServer methods and the real nodePrivilegedService.FindMissingMessages
func verifC12RunRpc(sv *verifC12Srvs, p *verifC12Plan, q *verifC12Query) {
	d := sv.d
	_ = d
	defer func() {
		if r := recover(); r != nil {
			q.Code = 4
		}
	}()
	ctx := context.Background()
	ahex := hex.EncodeToString(p.Pool[q.AI][:])
	if q.AHex == "-" {
		ahex = ""
	} else if q.AHex != "" {
		ahex = q.AHex
	}
	switch q.T {
	case "get":
		srv := sv.plain
		resp, err := srv.GetSignedVAA(ctx, &publicrpcv1.GetSignedVAARequest{MessageId: &publicrpcv1.MessageID{
			EmitterChain: publicrpcv1.ChainID(q.EC), EmitterAddress: ahex, TargetChain: publicrpcv1.ChainID(q.TC), Sequence: q.Seq}})
		q.Code = verifC12Code(err)
		if err == nil {
			q.B = hex.EncodeToString(resp.VaaBytes)
		}
	case "batch":
		srv := sv.plain
		// which emitter the node treats as the governance emitter is configuration: the batch of an ORDINARY stream does not depend on
		// it.  Every other batch query is asked on a server whose governance emitter has the query's address on another chain
		if ab, err := hex.DecodeString(ahex); err == nil && len(ab) == 32 && (len(q.Seqs)+int(q.EC))%2 == 0 {
			gch := vaa.ChainID(255)
			if q.EC == 255 {
				gch = vaa.ChainID(2)
			}
			gk := fmt.Sprintf("alt/%d/%s", gch, ahex)
			if sv.gov[gk] == nil {
				var ga vaa.Address
				copy(ga[:], ab)
				sv.gov[gk] = publicrpc.NewPublicrpcServer(zap.NewNop(), d, nil, gch, ga)
			}
			srv = sv.gov[gk]
		}
		resp, err := srv.GetNonGovernanceVAABatch(ctx, &publicrpcv1.GetNonGovernanceVAABatchRequest{
			EmitterChain: publicrpcv1.ChainID(q.EC), EmitterAddress: ahex, TargetChain: publicrpcv1.ChainID(q.TC), Sequences: q.Seqs})
		q.Code = verifC12Code(err)
		if err == nil {
			for _, e := range resp.Entries {
				q.Ents = append(q.Ents, verifC12Ent{0, e.Sequence, hex.EncodeToString(e.VaaBytes)})
			}
		}
	case "gov":
		// the governance emitter is configuration of the server: one server per asked emitter
		gk := fmt.Sprintf("%d/%d", q.EC, q.AI)
		srv := sv.gov[gk]
		if srv == nil {
			srv = publicrpc.NewPublicrpcServer(zap.NewNop(), d, nil, vaa.ChainID(q.EC), p.Pool[q.AI])
			sv.gov[gk] = srv
		}
		resp, err := srv.GetGovernanceVAABatch(ctx, &publicrpcv1.GetGovernanceVAABatchRequest{Sequences: q.Seqs})
		q.Code = verifC12Code(err)
		if err == nil {
			for _, e := range resp.Entries {
				q.Ents = append(q.Ents, verifC12Ent{uint32(e.TargetChain), e.Sequence, hex.EncodeToString(e.VaaBytes)})
			}
		}
	case "gap":
		s := sv.admin
		resp, err := s.FindMissingMessages(ctx, &nodev1.FindMissingMessagesRequest{EmitterChain: q.EC, TargetChain: q.TC, EmitterAddress: ahex})
		q.Code = verifC12Code(err)
		if err == nil {
			q.IDs = resp.MissingMessages
			if q.IDs == nil {
				q.IDs = []string{}
			}
			q.First, q.Last = resp.FirstSequence, resp.LastSequence
		}
	}
}

// TestVerifC12Rpc : stores from the same generator as TestVerifC12, asked through the RPC layer (plus the request shapes that only exist there)
func TestVerifC12Rpc(t *testing.T) {
	o, err := verifC12Open()
	if err != nil {
		t.Fatal(err)
	}
	defer o.close()
	if devnull, err := os.OpenFile(os.DevNull, os.O_WRONLY, 0); err == nil {
		saved := os.Stdout
		os.Stdout = devnull
		defer func() { os.Stdout = saved; devnull.Close() }()
	}
	r := &verifC12Rng{s: verifC12Seed() ^ 0xC12}
	base, err := os.MkdirTemp(os.Getenv("VERIF_TMP"), "c12rpc")
	if err != nil {
		t.Fatal(err)
	}
	defer os.RemoveAll(base)
	one := func(p *verifC12Plan, qs []*verifC12Query) {
		dir, _ := os.MkdirTemp(base, "s")
		d, err := db.Open(dir)
		if err != nil {
			t.Fatal(err)
		}
		sv := verifC12NewSrvs(d)
		tr := verifC12NewTruth()
		var oprows []*verifC12OpRow
		runOps := func(ops []*verifC12Op) {
			for _, op := range ops {
				b, _ := op.V.Marshal()
				panicked, err := verifC12Store(d, op.V)
				or := &verifC12OpRow{Panic: panicked, Err: err != nil}
				if op.Odd == "" {
					or.B = hex.EncodeToString(b)
				} else {
					or.Odd = op.Odd
					or.V = verifC12VaaFields(op.V)
					or.MB = hex.EncodeToString(b)
				}
				oprows = append(oprows, or)
				if !panicked && err == nil {
					tr.stored(op.V, b)
				}
			}
		}
		ask := func(row *verifC12Row2) {
			for qi, q := range row.Q {
				verifC12RunRpc(sv, p, q)
				// the reference speaks about well-formed requests: a 32-byte address and 16-bit chain numbers, at most 20 sequences
				wf := q.AHex == "" && q.EC < 65536 && q.TC < 65536 && len(q.Seqs) <= 20
				mq := *q
				if q.T == "gap" && q.Code == 0 {
					// the admin call renders the missing numbers as message ids: project back to numbers for the reference
					mq.Resp = []uint64{}
					for _, id := range q.IDs {
						vid, err := vaa.VaaIDFromString(id)
						if err != nil || uint32(vid.EmitterChain) != q.EC || uint32(vid.TargetChain) != q.TC || vid.EmitterAddress != p.Pool[q.AI] {
							if wf {
								row.Mon = append(row.Mon, "FindMissingMessages returned the id "+id+" which does not name the requested stream")
								row.MonQ = append(row.MonQ, qi)
							}
							continue
						}
						mq.Resp = append(mq.Resp, vid.Sequence)
					}
				}
				for _, m := range verifC12Monitor(tr, p, &mq, wf) {
					row.Mon = append(row.Mon, m)
					row.MonQ = append(row.MonQ, qi)
				}
			}
		}
		pre, q1 := verifC12ReplayPre()
		generated := qs == nil
		var ops2 []*verifC12Op
		nOps1 := len(p.Ops)
		if generated {
			qs = verifC12Queries(r, p, true)
			// history: later stores under ids that were already asked about (overwrites with other bytes, and the same emitter /
			// sequence under another target chain, asked about while still absent), then every lookup again on the same servers
			var sib []*verifC12Query
			ops2, sib = verifC12Phase2(r, p)
			qs = append(qs, sib...)
		} else if pre > 0 && pre <= len(p.Ops) {
			ops2 = p.Ops[pre:]
			nOps1 = pre
		}
		runOps(p.Ops[:nOps1])
		row := &verifC12Row2{verifC12Row: verifC12Row{K: "store", H: "rpc", Idx: p.Idx, Theme: p.Theme, Mon: []string{}, MonQ: []int{}}}
		if generated || len(ops2) == 0 {
			row.Ops = oprows
			row.Q = qs
			ask(row)
			row.Pool = verifC12PoolHex(p)
			o.emit(row)
		} else {
			warm := &verifC12Row2{verifC12Row: verifC12Row{Mon: []string{}, MonQ: []int{}}}
			warm.Q = q1
			ask(warm)
		}
		if len(ops2) > 0 {
			runOps(ops2)
			row2 := &verifC12Row2{verifC12Row: verifC12Row{K: "store", H: "rpc", Idx: p.Idx, Theme: p.Theme, Mon: []string{}, MonQ: []int{}}, Pre: nOps1}
			row2.Ops = oprows
			if generated {
				for _, q := range qs {
					row2.Q1 = append(row2.Q1, verifC12Fresh(q))
					if q.T != "gap" || p.GapOK {
						row2.Q = append(row2.Q, verifC12Fresh(q))
					}
				}
			} else {
				row2.Q1 = q1
				row2.Q = qs
			}
			ask(row2)
			row2.Pool = verifC12PoolHex(p)
			o.emit(row2)
		}
		d.Close()
		os.RemoveAll(dir)
	}
	if p, qs := verifC12LoadReplay("rpc"); p != nil {
		one(p, qs)
		return
	}
	for idx := 0; idx < verifC12NStores(); idx++ {
		one(verifC12MakePlan(r, idx), nil)
	}
}

// a row of the RPC harness: [Pre] = number of stores made before the first round of requests [Q1]; [Q] was asked after all stores
type verifC12Row2 struct {
	verifC12Row
	Pre int              `json:"pre,omitempty"`
	Q1  []*verifC12Query `json:"q1,omitempty"`
}

func verifC12Fresh(q *verifC12Query) *verifC12Query {
	return &verifC12Query{T: q.T, EC: q.EC, AI: q.AI, AHex: q.AHex, TC: q.TC, Seq: q.Seq, Seqs: append([]uint64(nil), q.Seqs...)}
}

// second-phase stores for a plan: for some stored VAAs an overwrite with other signature bytes / another body under the same
// identifier, and a VAA of the same emitter and sequence under another target chain; returns also the lookups of those sibling
// identifiers (asked in the first round while they are still absent)
func verifC12Phase2(r *verifC12Rng, p *verifC12Plan) ([]*verifC12Op, []*verifC12Query) {
	var ops []*verifC12Op
	var qs []*verifC12Query
	seen := map[string]bool{}
	for _, op := range p.Ops {
		seen[fmt.Sprintf("%d/%x/%d/%d", op.V.EmitterChain, op.V.EmitterAddress, op.V.TargetChain, op.V.Sequence)] = true
	}
	n := 0
	for _, op := range p.Ops {
		if op.Odd != "" || n >= 10 {
			continue
		}
		v := op.V
		ai := verifC12PoolIndex(p, v.EmitterAddress)
		switch r.below(3) {
		case 0: // overwrite: same identifier, same length, other signature bytes
			w := verifC12VAA(r, uint16(v.EmitterChain), v.EmitterAddress, uint16(v.TargetChain), v.Sequence)
			w.Payload = append([]byte(nil), v.Payload...)
			w.Signatures = nil
			for _, sg := range v.Signatures {
				ns := &vaa.Signature{Index: sg.Index}
				copy(ns.Signature[:], r.bytes(65))
				w.Signatures = append(w.Signatures, ns)
			}
			ops = append(ops, &verifC12Op{V: w})
			n++
		case 1: // sibling: another target chain, same emitter and sequence
			tc := verifC12Chains[r.below(len(verifC12Chains))]
			if rel := verifC12Related(uint16(v.TargetChain)); len(rel) > 0 && r.below(2) == 0 {
				tc = rel[r.below(len(rel))]
			}
			k := fmt.Sprintf("%d/%x/%d/%d", v.EmitterChain, v.EmitterAddress, tc, v.Sequence)
			if seen[k] {
				continue
			}
			seen[k] = true
			ops = append(ops, &verifC12Op{V: verifC12VAA(r, uint16(v.EmitterChain), v.EmitterAddress, tc, v.Sequence)})
			qs = append(qs, &verifC12Query{T: "get", EC: uint32(v.EmitterChain), AI: ai, TC: uint32(tc), Seq: v.Sequence})
			n++
		}
	}
	return ops, qs
}

// replay of a two-phase row: the number of first-phase stores and the first-phase requests recorded in the replay file
func verifC12ReplayPre() (int, []*verifC12Query) {
	raw, err := os.ReadFile(os.Getenv("VERIF_REPLAY"))
	if err != nil {
		return 0, nil
	}
	var rp struct {
		FailingInputs []struct {
			Harness string           `json:"harness"`
			Pre     int              `json:"pre"`
			Q1      []*verifC12Query `json:"q1"`
		} `json:"failing_inputs"`
	}
	if json.Unmarshal(raw, &rp) != nil {
		return 0, nil
	}
	for _, fi := range rp.FailingInputs {
		if fi.Harness == "rpc" && fi.Pre > 0 {
			for _, q := range fi.Q1 {
				q.Code, q.B, q.Resp, q.First, q.Last, q.Ents, q.IDs = 0, "", nil, 0, 0, nil, nil
			}
			return fi.Pre, fi.Q1
		}
	}
	return 0, nil
}
