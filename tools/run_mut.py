#!/usr/bin/env python3
"""usage: run_mut.py <name> <file> <old> <new> <check ids...>  — apply a textual mutation in a scratch worktree and run checks"""
import subprocess, sys, os, re
name, rel, old, new = sys.argv[1:5]
checks = sys.argv[5:]
wt = "/tmp/wt_main_" + name
subprocess.run(["git", "-C", "/repo", "worktree", "remove", "--force", wt], capture_output=True)
subprocess.run(["git", "-C", "/repo", "worktree", "add", "--detach", wt, "HEAD"], capture_output=True, check=True)
try:
    p = os.path.join(wt, rel)
    s = open(p).read()
    if old not in s:
        print("MUT %s: pattern not found" % name); sys.exit(2)
    open(p, "w").write(s.replace(old, new, 1))
    b = subprocess.run("cd %s/node && GOFLAGS=-mod=mod GOPROXY=off go build ./pkg/processor/ ./pkg/vaa/ ./pkg/db/ ./pkg/common/ 2>&1 | tail -3" % wt, shell=True, capture_output=True, text=True)
    if b.stdout.strip():
        print("MUT %s: does not compile: %s" % (name, b.stdout.strip()[:300])); sys.exit(3)
    t = subprocess.run("cd %s/node && GOFLAGS=-mod=mod GOPROXY=off go test -vet=off -count=1 ./pkg/processor/ ./pkg/vaa/ ./pkg/db/ ./pkg/common/ 2>&1 | grep -v '^ok' | tail -3" % wt, shell=True, capture_output=True, text=True)
    print("MUT %s: existing tests: %s" % (name, t.stdout.strip()[:200] or "pass"))
    for c in checks:
        r = subprocess.run(["./check", c], cwd="/verif", env=dict(os.environ, VERIF_REPO=wt), capture_output=True, text=True)
        out = r.stdout + r.stderr
        lines = [l for l in out.split("\n") if "VIOLATION" in l or "PROBLEM" in l]
        print("MUT %s: check %s rc=%d" % (name, c, r.returncode))
        for l in lines[:4]:
            print("    " + l[:260])
finally:
    subprocess.run(["git", "-C", "/repo", "worktree", "remove", "--force", wt], capture_output=True)
    h = __import__("hashlib").sha1(os.path.realpath(wt).encode()).hexdigest()[:10]
    subprocess.run(["rm", "-rf", "/verif/build/alt_" + h])
