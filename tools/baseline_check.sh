#!/bin/bash
# run the pinned suite on /repo's working tree and compare with BASELINE.json's stable_pass list
export GOFLAGS=-mod=mod GOPROXY=off GOSUMDB=off GOTOOLCHAIN=local
OUT=/verif/build/tmp/baseline.gotest.json
: > $OUT
for m in $(cat /w/out/gomods.txt); do (cd /repo/$m && go test -mod=mod -json -vet=off -count=1 -timeout 25m ./... >> $OUT 2>/dev/null); done
python3 - <<'PY'
import json
b=json.load(open('/root/.vp/BASELINE.json'))
want=set(b['stable_pass'])
passed=set()
for l in open('/verif/build/tmp/baseline.gotest.json'):
    try: e=json.loads(l)
    except Exception: continue
    if e.get('Action')=='pass' and e.get('Test'):
        passed.add(e['Package']+'::'+e['Test'])
missing=sorted(want-passed)
print("stable_pass:",len(want),"passed now:",len(passed),"missing:",len(missing))
for m in missing[:40]: print("  MISSING",m)
PY
