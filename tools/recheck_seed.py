#!/usr/bin/env python3
"""recheck_seed.py <seed dir under /verif/seeded> <check id> [...]: apply the kept patch in a fresh worktree, run the named checks of the CURRENT
machinery against it and refresh the `checks` part of meta.json (the confirmation of the change itself — demo with / without — is kept as recorded)."""
import subprocess, sys, os, json, hashlib, shutil, time
d = os.path.abspath(sys.argv[1])
checks = sys.argv[2:]
wt = "/tmp/rs_" + hashlib.sha1(d.encode()).hexdigest()[:8]
def sh(c):
    return subprocess.run(c, shell=True, capture_output=True, text=True)
sh("git -C /repo worktree remove --force %s" % wt)
r = sh("git -C /repo worktree add --detach %s HEAD" % wt)
try:
    a = sh("git -C %s apply %s/patch.diff" % (wt, d))
    if a.returncode != 0:
        print("patch does not apply:", a.stderr[-300:]); sys.exit(2)
    meta = json.load(open(os.path.join(d, "meta.json")))
    meta["rechecked_at_verif_commit"] = sh("git -C /verif rev-parse --short HEAD").stdout.strip()
    for c in checks:
        t0 = time.time()
        r = subprocess.run(["./check", c], cwd="/verif", env=dict(os.environ, VERIF_REPO=wt), capture_output=True, text=True)
        o = r.stdout + r.stderr
        lines = [l for l in o.split("\n") if "VIOLATION" in l or "PROBLEM" in l or "KNOWN-FINDING" in l]
        mon = [l for l in lines if "PROBLEM monitor" in l]
        keep = (mon[:3] + [l for l in lines if l not in mon][:3] + [l for l in lines if "VIOLATION" in l])[:8]
        meta["checks"][c] = {"rc": r.returncode, "wall_s": round(time.time() - t0), "lines": [l[:400] for l in keep]}
        print(d, c, "rc=%d" % r.returncode, "monitor lines: %d" % len(mon))
        for l in keep[:3]:
            print("    " + l[:220])
    json.dump(meta, open(os.path.join(d, "meta.json"), "w"), indent=1)
finally:
    sh("git -C /repo worktree remove --force %s" % wt)
    h = hashlib.sha1(os.path.realpath(wt).encode()).hexdigest()[:10]
    shutil.rmtree("/verif/build/alt_" + h, ignore_errors=True)
