#!/usr/bin/env python3
"""verify_seed.py <PROP> <seed_out_dir> <mN> <pkg-tests> -- <check ids...>
 Confirms a seeded change in a fresh worktree: demo passes on the clean tree, patch applies, existing tests of <pkg-tests> (in node/ unless
 prefixed module:) still pass, demo fails with the patch; then runs the given checks against the patched tree. Stores everything under
 /verif/seeded/<PROP>-<mN>/ (patch.diff, demo/, README.md, meta.json)."""
import subprocess, sys, os, json, shutil, hashlib, time
prop, out, m = sys.argv[1:4]
rest = sys.argv[4:]
sep = rest.index("--")
pkgs, checks = rest[:sep], rest[sep + 1:]
src = os.path.join(out, m)
wt = "/tmp/vs_%s_%s" % (prop, m)
env = dict(os.environ, GOFLAGS="-mod=mod", GOPROXY="off", GOSUMDB="off", GOTOOLCHAIN="local", WORKTREE=wt)
def sh(cmd, **kw):
    return subprocess.run(cmd, shell=True, capture_output=True, text=True, env=env, **kw)
sh("git -C /repo worktree remove --force %s" % wt)
base = os.environ.get("SEED_BASE", "HEAD")
r = sh("git -C /repo worktree add --detach %s %s" % (wt, base))
meta = {"property": prop, "seed": m, "verified_at_repo_head": sh("git -C /repo rev-parse --short %s" % os.environ.get("SEED_BASE", "HEAD")).stdout.strip(), "ran": []}
try:
    demo = "bash %s/demo/run.sh %s" % (src, wt)
    d0 = sh(demo); meta["ran"].append({"cmd": demo + "   # unmodified tree", "rc": d0.returncode})
    a = sh("git -C %s apply %s/patch.diff" % (wt, src)); meta["ran"].append({"cmd": "git apply patch.diff", "rc": a.returncode, "err": a.stderr[-300:]})
    mod = "node"
    if pkgs and pkgs[0].startswith("@"):
        mod = pkgs[0][1:]
        pkgs = pkgs[1:]
    tcmd = "cd %s/%s && go build ./... 2>&1 | grep -v 'quic-go\\|^#' | head -5; go test -vet=off -count=1 %s 2>&1 | tail -8" % (wt, mod, " ".join(pkgs))
    t = sh(tcmd); meta["ran"].append({"cmd": "go test -vet=off -count=1 %s   # existing tests, patched tree" % " ".join(pkgs), "out": t.stdout[-600:]})
    tests_ok = "FAIL" not in t.stdout
    d1 = sh(demo); meta["ran"].append({"cmd": demo + "   # patched tree", "rc": d1.returncode, "tail": (d1.stdout + d1.stderr)[-500:]})
    meta["demo_passes_without"] = d0.returncode == 0
    meta["demo_fails_with"] = d1.returncode != 0
    meta["existing_tests_pass_with"] = tests_ok
    sh("git -C %s status --short" % wt)
    meta["checks"] = {}
    prev = None
    for cand in ("/verif/seeded/%s/%s-rejected/meta.json" % (prop, m), "/verif/seeded/%s-%s-rejected/meta.json" % (prop, m), "/verif/seeded/%s/%s/meta.json" % (prop, m)):
        if os.path.exists(cand):
            prev = json.load(open(cand))
    if os.environ.get("SEED_SKIP_CHECKS") == "1" and prev:
        meta["checks"] = prev["checks"]
        checks = []
    for c in checks:
        t0 = time.time()
        r = subprocess.run(["./check", c], cwd="/verif", env=dict(os.environ, VERIF_REPO=wt), capture_output=True, text=True)
        o = r.stdout + r.stderr
        lines = [l for l in o.split("\n") if "VIOLATION" in l or "PROBLEM" in l or "KNOWN-FINDING" in l]
        meta["checks"][c] = {"rc": r.returncode, "wall_s": round(time.time() - t0), "lines": [l[:400] for l in lines[:6]]}
    import re as _re
    shared_dirs = [d for d in os.listdir(out) if os.path.isdir(os.path.join(out, d)) and not _re.fullmatch(r'm\d+', d)]
    shared_ov = bool(shared_dirs)
    sfx = os.environ.get("SEED_SUFFIX", "")
    dst = ("/verif/seeded/%s%s/%s" % (prop, sfx, m)) if shared_ov else ("/verif/seeded/%s%s-%s" % (prop, sfx, m))
    if meta["demo_passes_without"] and meta["demo_fails_with"] and tests_ok and a.returncode == 0:
        shutil.rmtree(dst, ignore_errors=True)
        os.makedirs(dst)
        shutil.copy(os.path.join(src, "patch.diff"), dst)
        shutil.copytree(os.path.join(src, "demo"), os.path.join(dst, "demo"))
        if os.path.exists(os.path.join(src, "README.md")):
            shutil.copy(os.path.join(src, "README.md"), dst)
        for d in shared_dirs:
            shutil.rmtree(os.path.join(os.path.dirname(dst), d), ignore_errors=True)
            shutil.copytree(os.path.join(out, d), os.path.join(os.path.dirname(dst), d))
        meta["kept"] = True
    else:
        meta["kept"] = False
        os.makedirs(dst + "-rejected", exist_ok=True)
        dst = dst + "-rejected"
    json.dump(meta, open(os.path.join(dst, "meta.json"), "w"), indent=1)
    print(json.dumps({k: meta[k] for k in ("property", "seed", "demo_passes_without", "demo_fails_with", "existing_tests_pass_with", "kept")}))
    for c, v in meta["checks"].items():
        print("  check %s rc=%d (%ds)" % (c, v["rc"], v["wall_s"]))
        for l in v["lines"][:3]:
            print("     " + l[:230])
finally:
    sh("git -C /repo worktree remove --force %s" % wt)
    h = hashlib.sha1(os.path.realpath(wt).encode()).hexdigest()[:10]
    shutil.rmtree("/verif/build/alt_" + h, ignore_errors=True)
