#!/bin/bash
# Build the framework offline from files on disk: regenerate Extracted.v from /repo, full Coq build, warm the Go harness builds.
set -u
cd "$(dirname "$0")"
export GOFLAGS=-mod=mod GOPROXY=off GOSUMDB=off GOTOOLCHAIN=local
mkdir -p build/tmp build/replay evidence
python3 gen/extract.py || exit 1
python3 vlib/mkproject.py
( cd coq && coq_makefile -f _CoqProject -o Makefile >/dev/null 2>&1 && timeout 3000 make -j16 -k >../build/setup_coq.log 2>&1 ) || { echo "coq build: some targets failed (each check rebuilds and reports its own theorems):"; grep -B2 -A6 "^Error" build/setup_coq.log | head -60; }
python3 vlib/warm.py || true
echo "setup done"
