"""C07 — quorum = floor(2n/3)+1 in node and contracts, BFT-safe."""
import core, os, subprocess

def run(ctx):
    core.run_extract(ctx, ["quorum_go", "quorum_sol", "quorum_ral"])
    proved = core.coq_prove(ctx, "C07")
    if ctx.tier == "thorough":
        core.coq_thorough_audit(ctx, "C07")
    # implementation: real CalculateQuorum
    rc, out, trace = core.harness_pkg(ctx, "processor", "^TestVerifC07$")
    rows = core.read_jsonl(trace)
    if rc != 0 or not rows:
        ctx.problem("correspondence", "go harness C07", out[-1500:])
        return
    ctx.evaluations = len(rows)
    ctx.distinct = len({r["n"] for r in rows if r["n"] > 0})
    ctx.rule = "n = 0..255 exhaustively plus random n < 2^31 (a quarter below 70000) from VERIF_SEED; non-trivial = n > 0, distinct by n"
    ctx.samples = rows[:3] + rows[254:258] + rows[-2:]
    # monitor: the property statement itself, literally
    for r in rows:
        n, q = r["n"], r["q"]
        if q != (2 * n) // 3 + 1 or (n >= 1 and not (3 * q > 2 * n and q <= n)):
            ctx.problem("monitor", "CalculateQuorum(%d) = %d, expected %d" % (n, q, 2 * n // 3 + 1),
                        "node threshold differs from floor(2n/3)+1", concrete=True, replay={"n": n, "got": q}, key="go:%d" % n)
            break
    # model vs implementation: the generated go_quorum evaluated inside Coq on the same n
    shards = [rows[i:i + 20000] for i in range(0, len(rows), 20000)]
    bad = []
    for si, sh in enumerate(shards):
        cases = core.glist("(%d,%d)" % (r["n"], r["q"]) for r in sh)
        text = ("From Coq Require Import List ZArith.\nFrom WH Require Import gen.Extracted.\nImport ListNotations.\nOpen Scope Z_scope.\n"
                "Definition cases : list (Z*Z) := %s.\n"
                "Definition M := Eval vm_compute in map fst (filter (fun c => negb (go_quorum (fst c) =? snd c)) cases).\nPrint M.\n"
                "Definition S := Eval vm_compute in filter (fun n => negb ((sol_quorum n =? go_quorum n) && (ral_quorum n =? go_quorum n))) (map fst cases).\nPrint S.\n" % cases)
        ok, o = core.coq_eval(ctx, "cases_C07_%d" % si, text)
        m = core.parse_print(o, "M")
        s = core.parse_print(o, "S")
        if not ok or m is None or s is None:
            ctx.problem("correspondence", "cases_C07 evaluation", o[-800:])
            return
        for n in core.zlist(m):
            bad.append(n)
            ctx.problem("correspondence", "go_quorum (generated) vs CalculateQuorum at n=%d" % n, "model and implementation differ",
                        concrete=False)
        for n in core.zlist(s)[:3]:
            # contracts cannot be executed here: the concrete input is the n on which the extracted formulas differ
            if 0 <= n <= 255:
                ctx.problem("monitor", "contract formula differs from node at n=%d" % n,
                            "extracted Solidity/Ralph quorum formula != node formula", concrete=True,
                            replay={"n": n, "note": "evaluate the contract's quorum expression at n"}, key="contract:%d" % n)
    ctx.cov["traces_validated_against_impl"] = len(rows)
    ctx.cov["mismatches"] = len(bad)
    # the explorer's own threshold (explorer-backend/processor verifyVAA, an anchor of this property): decided on real signatures for
    # set sizes n and counts floor(2n/3) / floor(2n/3)+1
    rcx, outx, tracex = core.harness_pkg(ctx, "explorer_processor", "^TestVerifC07Explorer$")
    xrows = [r for r in core.read_jsonl(tracex) if r.get("k") == "c07x"]
    if rcx != 0 or not xrows:
        ctx.problem("correspondence", "go harness C07 (explorer verifyVAA)", outx[-1500:])
    else:
        ctx.cov["explorer_threshold_decisions"] = len(xrows)
        ctx.cov["explorer_set_sizes"] = len({r["n"] for r in xrows})
        for r in xrows:
            if r["mon"]:
                ctx.problem("monitor", r["mon"][0], "observed on explorer-backend/processor.verifyVAA with real signatures", concrete=True,
                            replay={"guardian_set_size": r["n"], "valid_signatures": r["count"], "accepted": r["accepted"]}, key="explorer:threshold")
                break
    # explorer-backend links a cached copy of the node module: report whether its quorum.go equals the tree's
    try:
        gm = open(os.path.join(core.REPO, "explorer-backend/go.mod")).read()
        import re
        m = re.search(r'github.com/alephium/wormhole-fork/node (\S+)', gm)
        p = os.path.expanduser("~/go/pkg/mod/github.com/alephium/wormhole-fork/node@%s/pkg/processor/quorum.go" % m.group(1))
        same = open(p).read() == open(os.path.join(core.REPO, "node/pkg/processor/quorum.go")).read()
        ctx.cov["explorer_cached_quorum_go_identical_to_tree"] = same
    except Exception as e:
        ctx.cov["explorer_cached_quorum_go_identical_to_tree"] = "unknown: %r" % e
    ctx.assumptions = ["Solidity and Ralph sources are read, not executed (no solc / Ralph compiler): the extractor's reading of `/` as floor division on unsigned integers is trusted",
                       "Go int modelled as Z; overflow excluded by theorem C07_go_no_overflow for n < 2^59"]
