"""C07 — quorum = floor(2n/3)+1 in node and contracts, BFT-safe."""
import core, os, subprocess

GRID = r"""From Coq Require Import List ZArith Bool.
From WH Require Import gen.Extracted gen.ExtractedContractVerify.
Import ListNotations.
Open Scope Z_scope.
(* what the statement asks of a contract, written with the node's own threshold *)
Definition sol_want (n k vidx curidx exptime now : Z) (sv : bool) : bool :=
  negb (n =? 0) && negb (negb (vidx =? curidx) && (exptime <? now)) && (go_quorum n <=? k) && sv.
Definition ral_want (ver vc vidx curidx n k : Z) (gov sg : bool) : bool :=
  (ver =? vc) && (if gov then vidx =? curidx else true) && negb (n =? 0) && (go_quorum n <=? k) && sg.
Definition ns : list Z := map Z.of_nat (seq 0 41) ++ [84; 85; 86; 127; 128; 170; 171; 253; 254; 255].
Definition ks (n : Z) : list Z := let q := go_quorum n in [0; 1; q - 2; q - 1; q; q + 1; n - 1; n; n + 1; 255].
Definition bs := [true; false].
Definition solbad := flat_map (fun n => flat_map (fun k => flat_map (fun ic => flat_map (fun tm => flat_map (fun sv =>
    if (0 <=? k) && negb (Bool.eqb (sol_verifyVM n k (fst ic) (snd ic) (fst tm) (snd tm) sv) (sol_want n k (fst ic) (snd ic) (fst tm) (snd tm) sv))
    then [(n, k, ic, tm, sv)] else []) bs) [(50, 90); (90, 50)]) [(4, 4); (3, 4)]) (ks n)) ns.
Definition ralbad := flat_map (fun n => flat_map (fun k => flat_map (fun ic => flat_map (fun gov => flat_map (fun sg => flat_map (fun vv =>
    if (0 <=? k) && negb (Bool.eqb (ral_parse_and_verify (fst vv) (snd vv) (fst ic) (snd ic) n k gov sg) (ral_want (fst vv) (snd vv) (fst ic) (snd ic) n k gov sg))
    then [(n, k, ic, gov, sg, vv)] else []) [(1, 1); (2, 1)]) bs) bs) [(4, 4); (3, 4)]) (ks n)) ns.
Definition SB := Eval vm_compute in firstn 3 solbad.
Print SB.
Definition RB := Eval vm_compute in firstn 3 ralbad.
Print RB.
Definition CT := Eval vm_compute in (length solbad, length ralbad, length ns).
Print CT.
"""


def contract_grid(ctx, st):
    """the translated contract functions evaluated on a grid of (guardian count, signature count, set indices, times, oracle bits): the
    first inputs on which a contract's decision differs from the node's threshold are the concrete failing inputs (the contracts cannot be
    executed here; the evaluated terms are regenerated from Messages.sol / governance.ral on every run)"""
    import re
    ok, o = core.coq_eval(ctx, "cases_C07_grid", GRID)
    sb, rb, ct = core.parse_print(o, "SB"), core.parse_print(o, "RB"), core.parse_print(o, "CT")
    if not ok or sb is None or rb is None:
        ctx.problem("correspondence", "contract grid evaluation", o[-800:])
        return
    ctx.cov["contract_grid"] = {"guardian_counts": 51, "signature_counts_per_n": 10, "sol_cases": 51 * 10 * 2 * 2 * 2, "ral_cases": 51 * 10 * 2 * 2 * 2 * 2,
                                "sol_verifyVM_reads": ((st.get("sol_verifyvm") or {}).get("info") or {}).get("reads"),
                                "ral_parse_and_verify_reads": ((st.get("ral_parse_and_verify") or {}).get("info") or {}).get("reads"), "counts": ct}
    nums = lambda t: [int(x) for x in re.findall(r'-?\d+', t)]
    for name, txt, src in (("Messages.sol verifyVM", sb, "sol"), ("governance.ral parseAndVerifyVAA", rb, "ral")):
        items = re.findall(r'\((?:[^()]|\([^()]*\))*\)', txt.replace("%Z", "")) if txt.strip() not in ("[]", "nil") else []
        for it in items[:1]:
            v = nums(it)
            n, k = v[0], v[1]
            q = 2 * n // 3 + 1
            verdict = "accepts" if k < q or n == 0 else "decides differently from the node on"
            if src == "sol":
                det = "set index of the VM %d, current index %d, expiry %d, block time %d, verifySignatures = %s" % (v[2], v[3], v[4], v[5], "true" in it)
            else:
                det = "set index of the VAA %d, guardianSetIndexes[1] %d, flags (isGovernanceVAA, signatures pass) as listed, version byte %d / Version %d" % (v[2], v[3], v[-2], v[-1])
            ctx.problem("monitor", "%s (translated from the tree) %s a VAA with %d signatures for a set of %d guardians; the node's quorum is %d" % (name, verdict, k, n, q),
                        det + " ; grid row " + it, concrete=True,
                        replay={"contract_function": name, "guardian_count": n, "signature_count": k, "node_quorum": q, "row": it, "note": det}, key="contract-verify:" + src)


def node_published(ctx):
    """"a VAA the node considers complete is accepted on chain": every VAA the real processor handlers publish in the processor harness's histories is judged
    by the harness with the contracts' acceptance rule (at least floor(2n/3)+1 signature records, strictly ascending guardian indices, each recovering the key at
    its index over keccak(keccak(body)) — the rule the theorems C07_*_accepts_iff prove for both translated contract functions)"""
    rc, out, trace = core.harness_pkg(ctx, "processor", "^TestVerifProc$", timeout=1800)
    rows = [r for r in core.read_jsonl(trace) if r.get("k") == "hist"]
    if rc != 0 or not rows:
        ctx.problem("correspondence", "go harness C07 (VAAs published by the processor)", out[-1500:])
        return
    npub = sum(1 for h in rows for stp in h.get("steps", []) for o in stp.get("outs", []) if o.startswith("sendvaa ") or o.startswith("store "))
    ctx.cov["processor_histories_for_published_vaas"] = len(rows)
    ctx.cov["published_or_stored_vaas_judged"] = npub
    for h in rows:
        for line in h.get("mon") or []:
            if (line.startswith("C01: locally assembled VAA") and "valid quorum" in line) or line.startswith("C01: inbound VAA stored although it does not verify"):
                ctx.problem("monitor", "a VAA the node considered complete (published, or stored and served as a signed VAA) would be rejected on chain (both contracts ask for at least floor(2n/3)+1 signature records "
                            "with strictly ascending guardian indices, each recovering the key at its index): " + line,
                            "observed on the real handlers, history %s (%s)" % (h["id"], h.get("shape")), concrete=True,
                            replay={"history": h["id"], "shape": h.get("shape"), "ops": h["ops"], "monitor": line}, key="node-published:not-acceptable")
                return


def run(ctx):
    st = core.run_extract(ctx, ["quorum_go", "quorum_sol", "quorum_ral", "sol_verifyvm", "ral_parse_and_verify"])
    proved = core.coq_prove(ctx, "C07")
    if ctx.tier == "thorough":
        core.coq_thorough_audit(ctx, "C07")
    __import__("solverify_common").run(ctx, "C07")   # X12: Messages.sol parseVM / verifySignatures / verifyVM translated in full vs the node, on real signatures
    # implementation: real CalculateQuorum
    rc, out, trace = core.harness_pkg(ctx, "processor", "^TestVerifC07$")
    rows = core.read_jsonl(trace)
    if rc != 0 or not rows:
        ctx.problem("correspondence", "go harness C07", out[-1500:])
        return
    ctx.evaluations = len(rows)
    ctx.distinct = len({r["n"] for r in rows if r["n"] > 0})
    ctx.rule = "n = 0..255 exhaustively plus random n < 2^31 (a quarter below 70000) from VERIF_SEED; non-trivial = n > 0, distinct by n"
    ctx.samples = rows[:3] + rows[254:258] + rows[-2:]
    # monitor: the property statement itself, literally
    for r in rows:
        n, q = r["n"], r["q"]
        if q != (2 * n) // 3 + 1 or (n >= 1 and not (3 * q > 2 * n and q <= n)):
            ctx.problem("monitor", "CalculateQuorum(%d) = %d, expected %d" % (n, q, 2 * n // 3 + 1),
                        "node threshold differs from floor(2n/3)+1", concrete=True, replay={"n": n, "got": q}, key="go:%d" % n)
            break
    # model vs implementation: the generated go_quorum evaluated inside Coq on the same n
    shards = [rows[i:i + 20000] for i in range(0, len(rows), 20000)]
    bad = []
    for si, sh in enumerate(shards):
        cases = core.glist("(%d,%d)" % (r["n"], r["q"]) for r in sh)
        text = ("From Coq Require Import List ZArith.\nFrom WH Require Import gen.Extracted.\nImport ListNotations.\nOpen Scope Z_scope.\n"
                "Definition cases : list (Z*Z) := %s.\n"
                "Definition M := Eval vm_compute in map fst (filter (fun c => negb (go_quorum (fst c) =? snd c)) cases).\nPrint M.\n"
                "Definition S := Eval vm_compute in filter (fun n => negb ((sol_quorum n =? go_quorum n) && (ral_quorum n =? go_quorum n))) (map fst cases).\nPrint S.\n" % cases)
        ok, o = core.coq_eval(ctx, "cases_C07_%d" % si, text)
        m = core.parse_print(o, "M")
        s = core.parse_print(o, "S")
        if not ok or m is None or s is None:
            ctx.problem("correspondence", "cases_C07 evaluation", o[-800:])
            return
        for n in core.zlist(m):
            bad.append(n)
            ctx.problem("correspondence", "go_quorum (generated) vs CalculateQuorum at n=%d" % n, "model and implementation differ",
                        concrete=False)
        for n in core.zlist(s)[:3]:
            # contracts cannot be executed here: the concrete input is the n on which the extracted formulas differ
            if 0 <= n <= 255:
                ctx.problem("monitor", "contract formula differs from node at n=%d" % n,
                            "extracted Solidity/Ralph quorum formula != node formula", concrete=True,
                            replay={"n": n, "note": "evaluate the contract's quorum expression at n"}, key="contract:%d" % n)
    ctx.cov["traces_validated_against_impl"] = len(rows)
    ctx.cov["mismatches"] = len(bad)
    contract_grid(ctx, st)
    node_published(ctx)
    # the explorer's own threshold (explorer-backend/processor verifyVAA, an anchor of this property): decided on real signatures for
    # set sizes n and counts floor(2n/3) / floor(2n/3)+1
    rcx, outx, tracex = core.harness_pkg(ctx, "explorer_processor", "^TestVerifC07Explorer$")
    xrows = [r for r in core.read_jsonl(tracex) if r.get("k") == "c07x"]
    if rcx != 0 or not xrows:
        ctx.problem("correspondence", "go harness C07 (explorer verifyVAA)", outx[-1500:])
    else:
        ctx.cov["explorer_threshold_decisions"] = len(xrows)
        ctx.cov["explorer_set_sizes"] = len({r["n"] for r in xrows})
        for r in xrows:
            if r["mon"]:
                ctx.problem("monitor", r["mon"][0], "observed on explorer-backend/processor.verifyVAA with real signatures", concrete=True,
                            replay={"guardian_set_size": r["n"], "valid_signatures": r["count"], "accepted": r["accepted"]}, key="explorer:threshold")
                break
    # explorer-backend links a cached copy of the node module: report whether its quorum.go equals the tree's
    try:
        gm = open(os.path.join(core.REPO, "explorer-backend/go.mod")).read()
        import re
        m = re.search(r'github.com/alephium/wormhole-fork/node (\S+)', gm)
        p = os.path.expanduser("~/go/pkg/mod/github.com/alephium/wormhole-fork/node@%s/pkg/processor/quorum.go" % m.group(1))
        same = open(p).read() == open(os.path.join(core.REPO, "node/pkg/processor/quorum.go")).read()
        ctx.cov["explorer_cached_quorum_go_identical_to_tree"] = same
    except Exception as e:
        ctx.cov["explorer_cached_quorum_go_identical_to_tree"] = "unknown: %r" % e
    __import__("ralverify_common").differential(ctx)   # X11: governance.ral parseAndVerifyVAA translated in full vs the node, on real signatures
    ctx.assumptions = ["Solidity and Ralph sources are read, not executed (no solc / Ralph compiler): the extractor's reading of `/` as floor division on unsigned integers is trusted",
                       "Go int modelled as Z; overflow excluded by theorem C07_go_no_overflow for n < 2^59"]
