"""C02 — a VAA is published exactly when the node saw the message and quorum signed."""
import core
import proc_common as P

def run(ctx):
    rows = P.pipeline(ctx, "C02")
    if rows is None:
        return
    ctx.rule = ("generated + scripted histories: per message a bag of events (local observation, re-observation, observations of other members around the quorum boundary, duplicates, junk, inbound VAAs, "
                "own loopbacks, set change, injection, cleanup ticks) played in a random permutation, sets of size 1..19 with every own-key position; monitor (Go, own bookkeeping, literal 2n/3+1): "
                "published iff observed locally and a quorum of distinct members of the observation-time set (own included) was delivered, at most once per lifetime, body equal to the own observation, "
                "governance-emitter observations never signed; evaluations = histories; distinct non-trivial = distinct op sequences with at least one output")
    ctx.cov["broadcasts"] = sum(1 for h in rows for s in h["steps"] for x in s["outs"] if x.startswith("sendvaa "))
    ctx.cov["local_observations"] = sum(1 for h in rows for o in h["ops"] if o["k"] == "msg")
    ctx.assumptions = P.COMMON_ASSUMPTIONS + [
        "liveness half: sign_correct (recover d (sign d) = own for 32-byte d) — ECDSA sign/recover consistency, checked by the harness on every recorded signature; Keccak output is 32 bytes; own address 20 bytes",
        "an observation by a member of a FUTURE set delivered before the node snapshots that set is dropped by design (not applicable at delivery) and is not counted"]
