"""C19 — the explorer ingests only VAAs verified against the guardian set they name; index invariant; lookups during appends."""
import json, os, re, shutil
import core

HDR = ("From Coq Require Import Uint63.\nFrom Coq Require Import List ZArith Bool Arith Strings.Byte.\n"
       "From WH Require Import lib.Bytes lib.Wire gen.Extracted model.Vaa model.Explorer.\n"
       "Import ListNotations.\nOpen Scope Z_scope.\n")

# ------------------------------------------------------------------ shared Gallina: chain oracle from the scenario's history
CHAIN = r"""
Definition keys_of (nk : Z) : option (list bytes) := if nk <? 0 then None else Some [].
Fixpoint zrange (from : Z) (n : nat) : list Z := match n with O => [] | S k => from :: zrange (from + 1) k end.
Definition mkset (hist : list (list bytes)) (clen : Z) (enil : bool) (i : Z) : gset :=
  if i <? clen then {| g_index := i; g_keys := Some (nth (Z.to_nat i) hist []) |}
  else {| g_index := i; g_keys := if enil then None else Some [] |}.
(* getGuardianSetsRange against the simulated contract: the range is capped at the contract's current index (clen - 1) iff the tree says so *)
Definition mkchain hist clen enil (fail : bool) (from to : Z) : option (list gset) :=
  let to' := if explorer_range_capped then Z.min to (clen - 1) else to in
  if fail then None else Some (map (mkset hist clen enil) (zrange from (Z.to_nat (to' - from + 1)))).
Definition nkeys (g : gset) : Z := match g_keys g with None => -1 | Some l => Z.of_nat (length l) end.
Fixpoint zl_eqb (a b : list Z) : bool :=
  match a, b with [] , [] => true | x :: a', y :: b' => (x =? y) && zl_eqb a' b' | _, _ => false end.
Definition store_ok (s : store) (ecur : Z) (eidx enk : list Z) : bool :=
  (cur s =? ecur) && zl_eqb (map g_index (lists s)) eidx && zl_eqb (map nkeys (lists s)) enk.
"""

# ---- push scenarios
PUSH_HDR = HDR + r"""
Inductive pop := OPush (g : Z) (k : Z * bytes * Z * Z) (t : list (Z * bytes * option bytes)) | ODeq | OChainLen (n : Z) | OFail (b : bool).
(* expected after the op: result code, queue length, current index as seen through GetCurrentGuardianSet, list indices, key counts, sets sent *)
Definition exp := (Z * Z * Z * list Z * list Z * list Z)%type.
"""
PUSH_OK = CHAIN + r"""
Definition tbl_recover (t : list (Z * bytes * option bytes)) (h s : bytes) : option bytes :=
  match find (fun e => bytes_eqb (snd (fst e)) s) t with Some e => snd e | None => None end.
Definition rcode (r : pres) : Z :=
  match r with PEnqueued => 0 | PDuplicate => 1 | PQueueFull => 2 | PErrGet GErrFetch => 3 | PErrGet GErrIndex => 4
  | PErrVerify ENoAddresses => 5 | PErrVerify ENotSigned => 6 | PErrVerify ENoQuorum => 7 | PErrVerify EBadSigs => 8
  | PPanic => 9 | PErrGet _ => 10 end.
(* the harness sees the current index only as GetCurrentGuardianSet().Index and the list through fast-path lookups 0..that index *)
Definition seen_cur (s : store) : Z := match get_current s with Some g => g_index g | None => -2 end.
Definition seen_sets (s : store) : list gset := firstn (Z.to_nat (seen_cur s + 1)) (lists s).
Definition obs_ok (st : pstate) (e : exp) (code : Z) (sent : list Z) : bool :=
  let '(ec, eq, ecur, eidx, enk, esent) := e in
  (code =? ec) && (Z.of_nat (length (p_queue st)) =? eq) && (seen_cur (p_gs st) =? ecur) &&
  zl_eqb (map g_index (seen_sets (p_gs st))) eidx && zl_eqb (map nkeys (seen_sets (p_gs st))) enk && zl_eqb sent esent.
Fixpoint runops (hist : list (list bytes)) (enil : bool) (qcap : nat) (st : pstate) (clen : Z) (fail : bool) (ops : list (pop * exp)) : bool :=
  match ops with
  | [] => true
  | (o, e) :: t =>
    match o with
    | OPush g k tb =>
      let '(c, a, tc, sq) := k in
      let v := {| version := 1; gsidx := g; sigs := map (fun x => {| s_idx := fst (fst x); s_data := snd (fst x) |}) tb;
                  ts := 0; tns := 0; nonce := 0; echain := c; tchain := tc; eaddr := a; seq := sq; cl := 0; payload := [] |} in
      let '(st', r, sent) := push (tbl_recover tb) (fun b => b) (mkchain hist clen enil fail) qcap st (v, []) in
      obs_ok st' e (rcode r) sent && runops hist enil qcap st' clen fail t
    | ODeq =>
      let '(st', m) := dequeue st in
      obs_ok st' e (match m with Some (v, _) => seq v | None => -1 end) [] && runops hist enil qcap st' clen fail t
    | OChainLen n => obs_ok st e 0 [] && runops hist enil qcap st n fail t
    | OFail b => obs_ok st e 0 [] && runops hist enil qcap st clen b t
    end
  end.
Definition ok (c : list (list bytes) * Z * Z * bool * nat * list (pop * exp)) : bool :=
  let '(hist, k0, clen, enil, qcap, ops) := c in
  let s0 := {| cur := k0 - 1; lists := map (mkset hist k0 false) (zrange 0 (Z.to_nat k0)) |} in
  runops hist enil qcap {| p_gs := s0; p_seen := []; p_queue := [] |} clen false ops.
"""

PUSH_CODES = {"enq": 0, "dup": 1, "full": 2, "g-fetch": 3, "g-index": 4, "v-noaddr": 5, "v-unsigned": 6, "v-noquorum": 7, "v-badsigs": 8, "panic": 9}


def g_hist(hist):
    return core.glist(core.glist("B " + core.gbytes(a) for a in s) for s in hist)


def zl(xs):
    return core.glist(core.gz(x) for x in xs)


def push_case(r):
    ops = []
    for o in r["ops"]:
        st = o["store"]
        nk = [(-1 if n else k) for k, n in zip(st["nkeys"], st["nil"])]
        code = 0
        if o["op"] == "push":
            tb = core.glist("(%d, B %s, %s)" % (s["i"], core.gbytes(s["d"]), "None" if s["rec"] is None else "Some (B %s)" % core.gbytes(s["rec"])) for s in o["sigs"])
            g = "OPush %d (%d, B %s, %d, %d) %s" % (o["g"], o["echain"], core.gbytes(o["eaddr"]), o["tchain"], o["seq"], tb)
            code = PUSH_CODES[o["res"]]
        elif o["op"] == "deq":
            g = "ODeq"
            code = o.get("gotseq", -1)
        elif o["op"] == "chainlen":
            g = "OChainLen %d" % o["len"]
        else:
            g = "OFail %s" % core.gbool(o["fail"])
        ops.append("(%s, (%s, %d, %s, %s, %s, %s))" % (g, core.gz(code), o["qlen"], core.gz(st["cur"]), zl(st["idx"]), zl(nk), zl(o["sent"])))
    return "(%s, %d, %d, %s, %d%%nat, %s)" % (g_hist(r["hist"]), r["k0"], r["chain0"], core.gbool(r["emptynil"]), r["qcap"], core.glist(ops))


# ---- store scenarios (package guardiansets): update / get / current
SETS_HDR = HDR + r"""
Inductive sop := SUpd (idxs : list Z) | SGet (i : Z) | SCur | SChainLen (n : Z) | SFail (b : bool).
(* expected: result code, returned index, returned key count, current index, list indices, sets sent *)
Definition exp := (Z * Z * Z * Z * list Z * list Z)%type.
"""
SETS_OK = CHAIN + r"""
Definition gcode (r : gres) : Z := match r with GOk _ => 0 | GErrFetch => 1 | GErrIndex => 2 | GPanic => 3 end.
Definition obs_ok (s : store) (e : exp) (code ri rk : Z) (sent : list Z) : bool :=
  let '(ec, ei, ek, ecur, eidx, esent) := e in
  (code =? ec) && (ri =? ei) && (rk =? ek) && (cur s =? ecur) && zl_eqb (map g_index (lists s)) eidx && zl_eqb sent esent.
(* batches built by the harness: set i of the history, or an empty non-nil key list beyond it *)
Definition bset (hist : list (list bytes)) (i : Z) : gset := mkset hist (Z.of_nat (length hist)) false i.
Fixpoint runops (hist : list (list bytes)) (s : store) (clen : Z) (fail : bool) (ops : list (sop * exp)) : bool :=
  match ops with
  | [] => true
  | (o, e) :: t =>
    match o with
    | SUpd idxs => let s' := update s (map (bset hist) idxs) in obs_ok s' e 0 0 0 [] && runops hist s' clen fail t
    | SGet i =>
      let '(s', r, sent) := get (mkchain hist clen true fail) s i in
      obs_ok s' e (gcode r) (match r with GOk g => g_index g | _ => 0 end)
             (match r with GOk g => Z.max 0 (nkeys g) | _ => 0 end) sent && runops hist s' clen fail t
    | SCur => obs_ok s e (match get_current s with Some _ => 0 | None => 3 end)
                     (match get_current s with Some g => g_index g | None => -1 end) 0 [] && runops hist s clen fail t
    | SChainLen n => obs_ok s e 0 0 0 [] && runops hist s n fail t
    | SFail b => obs_ok s e 0 0 0 [] && runops hist s clen b t
    end
  end.
Definition ok (c : list (list bytes) * Z * Z * list (sop * exp)) : bool :=
  let '(hist, k0, clen, ops) := c in
  runops hist {| cur := k0 - 1; lists := map (bset hist) (zrange 0 (Z.to_nat k0)) |} clen false ops.
"""

GET_CODES = {"ok": 0, "err-fetch": 1, "err-index": 2, "panic": 3}


def sets_case(r):
    ops = []
    for o in r["ops"]:
        code = ri = rk = 0
        if o["op"] == "upd":
            g = "SUpd %s" % zl(o["idxs"])
        elif o["op"] == "get":
            g = "SGet %s" % core.gz(o["idx"])
            res = o["res"]
            code = GET_CODES.get(res["res"], 9)
            if res["res"] == "ok":
                ri, rk = res["index"], len(res["keys"]) // 40
        elif o["op"] == "cur":
            g = "SCur"
            code = 3 if o["panic"] else 0
            ri = o["index"]
        elif o["op"] == "chainlen":
            g = "SChainLen %d" % o["len"]
        else:
            g = "SFail %s" % core.gbool(o["fail"])
        ops.append("(%s, (%d, %s, %d, %s, %s, %s))" % (g, code, core.gz(ri), rk, core.gz(o["cur"]), zl(o["list"]), zl(o["sent"])))
    hist = [[h[i:i + 40] for i in range(0, len(h), 40)] for h in r["hist"]]
    return "(%s, %d, %d, %s)" % (g_hist(hist), r["k0"], r["chain0"], core.glist(ops))


# ------------------------------------------------------------------ race detector output
def parse_races(out):
    """every 'WARNING: DATA RACE' block -> (access1 frame, access2 frame) restricted to frames in the repository's own files"""
    pairs = {}
    for blk in out.split("WARNING: DATA RACE")[1:]:
        blk = blk.split("==================")[0]
        parts = re.split(r'\n(?=(?:Previous )?(?:[Rr]ead|[Ww]rite) at )', "\n" + blk)
        acc = []
        for p in parts:
            m = re.match(r'\s*((?:Previous )?(?:[Rr]ead|[Ww]rite)) at \S+ by (?:main )?goroutine', p)
            if not m:
                continue
            frames = re.findall(r'\n\s+(\S+)\(\)\n\s+(\S+?):(\d+)', p)
            own = [(fn.split("/")[-1], os.path.basename(f), int(ln)) for fn, f, ln in frames if "zz_verif" not in f and "/explorer-backend/" in f]
            acc.append((m.group(1).replace("Previous ", "").lower(), own[0] if own else None))
        if len(acc) >= 2 and (acc[0][1] or acc[1][1]):
            k = tuple(sorted("%s %s %s:%d" % (a, fr[0], fr[1], fr[2]) if fr else "%s (harness reading the returned set)" % a for a, fr in acc[:2]))
            pairs[k] = pairs.get(k, 0) + 1
    return pairs


def hist_add(h, k):
    h[k] = h.get(k, 0) + 1


def run(ctx):
    core.run_extract(ctx, ["explorer_store", "explorer_gate", "quorum_go"])
    core.coq_prove(ctx, "C19")
    if ctx.tier == "thorough":
        core.coq_thorough_audit(ctx, "C19")
    st = ctx.cov.get("extractors", {}).get("explorer_store")
    core.coq_make(["model/Explorer.vo"])   # the model must be built even when a theorem about it is not
    ctx.evaluations = 0
    samples = []
    distinct = set()

    # ---------------- (a) store: append histories and lookups, one goroutine
    rc, out, trace = core.harness_pkg(ctx, "explorer_guardiansets", "^TestVerifC19Sets$")
    allsets = core.read_jsonl(trace)
    rows = [r for r in allsets if r.get("k") == "sets"]
    frows = [r for r in allsets if r.get("k") == "sets-fault"]
    monitor(ctx, frows, "sets-fault")
    ctx.cov["store_fault_scenarios"] = len(frows)
    urows = [r for r in allsets if r.get("k") == "sets-future"]
    monitor(ctx, urows, "sets-future")
    ctx.cov["store_future_index_scenarios"] = len(urows)
    if rc != 0 or not rows:
        ctx.problem("correspondence", "go harness C19 (guardiansets)", out[-1500:])
    else:
        oph = {}
        for r in rows:
            for o in r["ops"]:
                hist_add(oph, o["op"] + (":" + o["res"]["res"] if o["op"] == "get" else ""))
                ctx.evaluations += 1
                distinct.add(("s", r["sc"], json.dumps(o, sort_keys=True)))
        ctx.cov["store_ops"] = oph
        ctx.cov["store_scenarios"] = len(rows)
        ctx.cov["fetches_beyond_chain_recorded"] = sum(r.get("poisoned", 0) for r in rows)
        monitor(ctx, rows, "sets")
        bad = core.run_cases(ctx, "cases_C19s", rows, SETS_HDR, "list (list bytes) * Z * Z * list (sop * exp)", sets_case, SETS_OK,
                             weight=lambda r: 40 * len(r["ops"]) + 20 * len(r["hist"]))
        if bad is not None:
            for i in bad[:3]:
                r = rows[i]
                ctx.problem("correspondence", "model update/get differs from GuardianSets", "scenario %d (gap=%s)" % (r["sc"], r["gap"]),
                            concrete=False, replay={"scenario": r})
            ctx.cov["store_scenarios_validated"] = len(rows)
            ctx.cov["store_mismatches"] = len(bad)
        samples.append({"store scenario": {"k0": rows[0]["k0"], "chain": rows[0]["chain0"], "ops": [o["op"] for o in rows[0]["ops"]]}})

    # ---------------- (b) gate: Push
    rc, out, trace = core.harness_pkg(ctx, "explorer_processor", "^TestVerifC19Push$")
    allrows = core.read_jsonl(trace)
    monitor(ctx, [r for r in allrows if r.get("k") == "probe"], "probe")
    rows = [r for r in allrows if r.get("k") == "push"]
    if rc != 0 or not rows:
        ctx.problem("correspondence", "go harness C19 (processor)", out[-1500:])
    else:
        kh = {}
        for r in rows:
            for o in r["ops"]:
                ctx.evaluations += 1
                if o["op"] == "push":
                    hist_add(kh, o["kind"] + " -> " + o["res"])
                    if o["sigs"]:
                        distinct.add(("p", o["g"], tuple((s["i"], s["d"]) for s in o["sigs"]), o["seq"]))
        ctx.cov["push_kind_result"] = dict(sorted(kh.items()))
        ctx.cov["push_scenarios"] = len(rows)
        monitor(ctx, rows, "push")
        bad = core.run_cases(ctx, "cases_C19p", rows, PUSH_HDR, "list (list bytes) * Z * Z * bool * nat * list (pop * exp)", push_case, PUSH_OK,
                             weight=lambda r: sum(60 + 30 * len(o.get("sigs", [])) for o in r["ops"]) + 30 * sum(len(s) for s in r["hist"]))
        if bad is not None:
            for i in bad[:3]:
                r = rows[i]
                ctx.problem("correspondence", "model push differs from vaaGossipConsumer.Push", "scenario %d" % r["sc"], concrete=False,
                            replay={"scenario": r})
            ctx.cov["push_scenarios_validated"] = len(rows)
            ctx.cov["push_mismatches"] = len(bad)
        p0 = [o for o in rows[0]["ops"] if o["op"] == "push"][:2]
        samples += [{"push": {"kind": o["kind"], "names_set": o["g"], "signer_indices": [s["i"] for s in o["sigs"]], "result": o["res"]}} for o in p0]

    # ---------------- (b') several appenders delivering the same new set / overlapping ranges at the same moment
    rc, out, trace = core.harness_pkg(ctx, "explorer_guardiansets", "^TestVerifC19Dup$", timeout=1500)
    drows = core.read_jsonl(trace)
    dsum = [r for r in drows if r.get("k") == "dup-summary"]
    if rc != 0 or not dsum:
        ctx.problem("correspondence", "go harness C19 (concurrent appenders)", out[-1500:])
    else:
        ctx.cov["concurrent_appenders"] = {k: v for k, v in dsum[0].items() if k in ("rounds", "deliveries", "lookups")}
        ctx.evaluations += dsum[0]["deliveries"]
    for r in drows:
        if r.get("k") == "dup":
            ctx.problem("monitor", r["mon"][0], "observed on the implementation (TestVerifC19Dup round %d)" % r["round"], concrete=True,
                        replay={k: v for k, v in r.items() if k not in ("mon", "k")}, key="concurrent-appends:misaligned")

    # ---------------- (c) lookups during appends, under the race detector (both tiers: this is the schedule clause)
    rc, out, trace = core.harness_pkg(ctx, "explorer_guardiansets", "^TestVerifC19Race$", race=True, timeout=1500)
    rrows = core.read_jsonl(trace)
    summ = [r for r in rrows if r.get("k") == "race-summary"]
    races = parse_races(out)
    ctx.cov["race_run"] = summ[0] if summ else "no summary"
    ctx.cov["race_detector_pairs"] = {" | ".join(k): v for k, v in races.items()}
    if summ:
        ctx.evaluations += summ[0]["lookups"]
    for r in rrows:
        if r.get("k") == "race":
            key = "lookup-during-append:" + r["class"]
            ctx.problem("monitor", r["mon"][0], "observed on the implementation (TestVerifC19Race)", concrete=True,
                        replay={k: v for k, v in r.items() if k not in ("mon", "k")}, key=key)
    store_races = {k: v for k, v in races.items() if any("gst_data.go" in x for x in k)}
    if store_races:
        k0 = sorted(store_races.items(), key=lambda kv: -kv[1])
        ctx.problem("monitor", "race detector: unsynchronised access to the guardian-set store during an append: " + "; ".join(" vs ".join(k) for k, _ in k0[:4]),
                    "go test -race, TestVerifC19Race", concrete=True,
                    replay={"how": "go test -race -run TestVerifC19Race ./guardiansets (harness: one goroutine calls updateGuardianSets with consecutive batches, others call GetGuardianSet for old / newest / next index)",
                            "pairs": [{"accesses": list(k), "reports": v} for k, v in k0]},
                    key="lookup-during-append:data-race")
    elif races:
        ctx.problem("monitor", "race detector reports (outside gst_data.go): " + "; ".join(" vs ".join(k) for k in list(races)[:3]), out[-1200:], concrete=True,
                    replay={"pairs": [list(k) for k in races]}, key="data-race-other")
    elif rc != 0 or not summ:
        ctx.problem("correspondence", "go harness C19 race run", out[-1500:])

    ctx.distinct = len(distinct)
    ctx.rule = ("store scenarios: histories of appends (contiguous, overlapping, empty, and non-contiguous ones for the correspondence only), lookups of old/current/next/"
                "beyond-the-chain indices through a simulated Ethereum node (incl. RPC failure); push scenarios: guardian-set rotations over real secp256k1 keys, VAAs "
                "valid / all-signers / under-signed / unsigned / foreign signer / signed over another body / signed by another set / signed by the current set but naming "
                "an old one / unordered / repeated signer / index out of range / duplicates / retries after 'queue full', queue capacity 1..3; concurrent run: lookups "
                "during appends under -race. distinct = distinct ops incl. signature lists; non-trivial = store ops and signed VAAs")
    ctx.samples = samples
    ctx.assumptions = [
        "recover/keccak are arbitrary functions in the theorems; in the correspondence run recover is the table of go-ethereum Ecrecover results recorded by the harness (called directly)",
        "the interleaving theorem is over atomic steps at lock granularity for one lookup against one append, reader discipline and write order read from gst_data.go; the Go memory model below that "
        "granularity is covered by the race detector run, not by the proof",
        "the explorer links github.com/alephium/wormhole-fork/node from the module cache (version pinned in explorer-backend/go.mod), not /repo/node: the extractor compares its CalculateQuorum and VerifySignatures with the tree's",
        "deduplicator cache in the harness: patrickmn/go-cache (synchronous); production uses ristretto, whose Set is asynchronous and lossy (a lost mark only lets a duplicate through)",
        "getGuardianSetsRange is modelled over the two contract calls (model/ExplorerRange.v): the cap at the contract's current index is read from the tree (explorer_range_capped); that Getters.sol getGuardianSet answers an unknown index with the empty set is read from the contract source (plain mapping read), go-ethereum's ABI decoding of that answer is exercised through the simulated node, not modelled",
    ]
    if st:
        ctx.cov["store_locking"] = st


def monitor(ctx, rows, what):
    seen = {}
    for r in rows:
        for m in r.get("mon", []):
            cls = re.sub(r'\d+', 'N', m)[:60]
            if "QUEUED WITHOUT QUORUM" in m:
                cls = "gate:queued-without-quorum"
            elif "WAS NOT INGESTED" in m:
                cls = "dedup:failed-handoff-marked"
            elif "was rejected" in m:
                cls = "gate:valid-rejected"
            elif "panicked" in m:
                cls = "panic:" + what
            elif "returned the set with index" in m:
                cls = "lookup:wrong-set"
            elif "looked up once while the chain only had" in m:
                cls = "lookup:future-index-stored-empty"
            if cls in seen:
                continue
            seen[cls] = 1
            if len(seen) <= 6:
                ctx.problem("monitor", m, "observed on the implementation (%s scenario %d)" % (what, r["sc"]), concrete=True,
                            replay={"scenario": r, "monitor": m}, key=cls)
