"""C08 — Alephium messages reach the signer only when final and from the token bridge (both paths)."""
import core
import alph_common as A

def run(ctx):
    core.run_extract(ctx, A.EXTRACTORS_C08)
    core.coq_prove(ctx, "C08")
    if ctx.tier == "thorough":
        core.coq_thorough_audit(ctx, "C08")
    rows = A.run_harness(ctx)
    if rows is None:
        return
    A.coverage(ctx, rows)
    nmon, classes = A.monitors(ctx, rows, "C08")
    ctx.cov["monitor_findings"] = classes
    ctx.evaluations = sum(len(r["steps"]) for r in rows)
    ctx.distinct = len({(r["id"], i) for r in rows for i, s in enumerate(r["steps"]) if s["op"] in ("tick", "reobs") and s.get("fwd")})
    ctx.rule = ("random chain histories against the simulated node (blocks orphaned / re-included, heights advancing, stalling and jumping, events of the governance contract, "
                "of foreign senders and look-alike events of other contracts in the same transaction, attestations against 21 token-contract answer shapes (each call failing, wrong arity, wrong type, out-of-range decimals, wrong result count, API error), levels 0..255, events landing between count and page requests, page sizes 1..100, "
                "API errors at each call, both networks); evaluations = steps executed on the real watcher code; distinct non-trivial = steps (height tick / re-observation) "
                "in which at least one message was forwarded")
    ctx.samples = [{"history": r["id"], "step": s} for r in rows[:40] for s in r["steps"] if s.get("fwd")][:4]
    pipe = A.pipe_start(ctx, "cases_C08_pipe", rows, "full")   # the composed model (AlphPipeline) on the histories with raw boundary / unfit fields
    n, bad = A.model_compare(ctx, "cases_C08", rows)
    pipe.join()
    if bad is None:
        return
    ctx.cov["traces_validated_against_impl"] = n
    ctx.cov["mismatches"] = len(bad)
    for r in bad[:3]:
        k = A.first_divergence(ctx, "cases_C08", r)
        ctx.problem("correspondence", "model run differs from the watcher on history %d" % r["id"],
                    "first diverging step %s: %s" % (k, str(r["steps"][k] if k is not None and k < len(r["steps"]) else "")[:400]),
                    concrete=False, replay=A.replay_of(r, "model/implementation divergence at step %s" % k))
    ctx.assumptions = ["the node's answers are taken at face value: 'at that moment' = according to the answer obtained in that step",
                       "in model.AlphWatcher the field conversion is an input flag; model.AlphPipeline composes it with model.AlphConv (raw fields in, full message out), proved to refine model.AlphWatcher step by step and replayed on the histories of the fields family",
                       "int32 / int64 wrap-around of height+level and timestamp+duration is modelled; the theorems assume block heights below 2^31-256 and |timestamps| below 2^62",
                       "wall-clock comparisons are decided with block timestamps at least 2.5 s away from every hold-time boundary",
                       "concurrency: the watcher's goroutines share no state besides the channels; the model interleaves whole steps (one poll, one hand-over, one height tick, one re-observation request)"]
