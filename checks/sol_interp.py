"""A small interpreter of Messages.sol parseVM (second, independent reading of the contract source, besides gen/x_layouts.py): it executes the
function's statements on the wire bytes the Go encoder produced and returns what the contract would hold.  Used by checks/c04.py to turn a
drift of the contract-side layout into a CONCRETE input (a VAA on which the contract reads other values than the guardians signed).
Understands: `uint index = 0;`, `X = encodedVM.toUintN(index [+ k]) [+ c];`, `X = encodedVM.toBytes32(index [+ k]);`, `index += n;`,
`require(vm.version == n, ..)`, the signature loop, `bytes memory body = encodedVM.slice(index, encodedVM.length - index);`,
`vm.hash = ...(body)`, `vm.payload = encodedVM.slice(index, encodedVM.length - index);`.  Anything else: SolUnknown."""
import re


class SolUnknown(Exception):
    pass


W = {"Uint8": 1, "Uint16": 2, "Uint32": 4, "Uint64": 8, "Uint256": 32, "Bytes32": 32}


def _stmts(src):
    try:
        pv = src[src.index("function parseVM"):src.index("function quorum")]
    except ValueError:
        raise SolUnknown("parseVM .. quorum not found")
    pv = pv[pv.index("{") + 1:]
    pv = re.sub(r'//[^\n]*', '', pv)
    pv = re.sub(r'/\*.*?\*/', '', pv, flags=re.S)
    return re.sub(r'\s+', ' ', pv).strip()


def run(src, data):
    """returns dict(fields..., sigs=[(idx, r, s, v)], hashed=bytes, payload=bytes) or raises SolUnknown / ValueError (revert)"""
    t = _stmts(src)
    env = {"sigs": []}
    pos = [0]
    index = [None]

    def eat(rx):
        m = re.match(rx + r'\s*', t[pos[0]:])
        if m:
            pos[0] += m.end()
        return m

    def read(kind, off):
        w = W[kind]
        a = index[0] + off
        if a + w > len(data) or a < 0:
            raise ValueError("read out of bounds")
        b = data[a:a + w]
        return b if kind == "Bytes32" else int.from_bytes(b, "big")

    def block(in_loop):
        while pos[0] < len(t):
            if in_loop and eat(r'\}'):
                return
            if eat(r'uint index = 0;'):
                index[0] = 0
                continue
            m = eat(r'index \+= (\d+);')
            if m:
                index[0] += int(m.group(1))
                continue
            m = eat(r'(vm\.[\w\.\[\]]+|uint256 signersLen) = encodedVM\.to(\w+)\(index(?: \+ (\d+))?\)(?: \+ (\d+))?;')
            if m:
                lhs, kind, off, plus = m.group(1), m.group(2), int(m.group(3) or 0), int(m.group(4) or 0)
                if kind not in W:
                    raise SolUnknown("reader to%s" % kind)
                v = read(kind, off)
                if plus:
                    v = v + plus
                mm = re.fullmatch(r'vm\.signatures\[i\]\.(\w+)', lhs)
                if mm:
                    env["cursig"][mm.group(1)] = v
                else:
                    env[lhs.replace("uint256 ", "").replace("vm.", "")] = v
                continue
            m = eat(r'require\(vm\.version == (\d+), "[^"]*"\);')
            if m:
                if env.get("version") != int(m.group(1)):
                    raise ValueError("version")
                continue
            if eat(r'vm\.signatures = new Structs\.Signature\[\]\(signersLen\);'):
                continue
            if eat(r'for \(uint i = 0; i < signersLen; i\+\+\) \{'):
                start = pos[0]
                n = env.get("signersLen")
                if n is None:
                    raise SolUnknown("loop before signersLen")
                if n == 0:
                    # skip the body
                    depth = 1
                    while depth:
                        c = t[pos[0]]
                        depth += (c == '{') - (c == '}')
                        pos[0] += 1
                    while pos[0] < len(t) and t[pos[0]] == ' ':
                        pos[0] += 1
                for i in range(n):
                    pos[0] = start
                    env["cursig"] = {}
                    block(True)
                    env["sigs"].append(env.pop("cursig"))
                continue
            if eat(r'bytes memory body = encodedVM\.slice\(index, encodedVM\.length - index\);'):
                env["hashed"] = data[index[0]:]
                continue
            m = eat(r'vm\.hash = ([^;]+);')
            if m:
                env["hash_expr"] = re.sub(r'\s+', '', m.group(1))
                continue
            if eat(r'vm\.payload = encodedVM\.slice\(index, encodedVM\.length - index\);'):
                env["payload"] = data[index[0]:]
                continue
            if eat(r'\}'):
                return
            raise SolUnknown("statement not understood: %s" % t[pos[0]:pos[0] + 80])

    block(False)
    return env


def compare(env, row):
    """list of differences between what the contract holds and what the guardians signed (row = harness row of C04)"""
    d = []
    want = {"version": row["version"], "guardianSetIndex": row["gsidx"], "timestamp": row["secs"] % 2**32, "nonce": row["nonce"],
            "emitterChainId": row["echain"], "targetChainId": row["tchain"], "sequence": int(row["seq"]), "consistencyLevel": row["cl"]}
    for k, v in want.items():
        if env.get(k) != v:
            d.append("%s: the contract reads %r, the VAA says %r" % (k, env.get(k), v))
    if env.get("emitterAddress") != bytes.fromhex(row["eaddr"]):
        d.append("emitterAddress differs")
    if env.get("payload") != bytes.fromhex(row["payload"]):
        d.append("payload differs (contract %d bytes, VAA %d bytes)" % (len(env.get("payload") or b""), len(row["payload"]) // 2))
    if env.get("hashed") != bytes.fromhex(row["body"]):
        d.append("the bytes the contract hashes are not the signing body")
    if env.get("hash_expr") != "keccak256(abi.encodePacked(keccak256(body)))":
        d.append("hash expression %r is not the double Keccak-256 of the body" % env.get("hash_expr"))
    sigs = row["sigs"]
    if len(env["sigs"]) != len(sigs):
        d.append("signature count: contract %d, VAA %d" % (len(env["sigs"]), len(sigs)))
    else:
        for a, b in zip(env["sigs"], sigs):
            raw = bytes.fromhex(b["d"] if isinstance(b, dict) else b[1])
            idx = b["i"] if isinstance(b, dict) else b[0]
            if a.get("guardianIndex") != idx or a.get("r") != raw[:32] or a.get("s") != raw[32:64] or a.get("v") != raw[64] + 27:
                d.append("signature record of guardian %d differs" % idx)
                break
    return d
