"""C10 — EVM watcher: messages reach the signer only from the core contract and when final; dropped when orphaned /
re-mined / failed; forwarded exactly once at the first sufficiently deep head whatever the head sequence."""
import json, os
import core

HDR = ("From Coq Require Import List ZArith Bool.\n"
       "From WH Require Import lib.Wire gen.Extracted model.EvmWatcher model.EvmWatcherCase.\n"
       "Import ListNotations.\nOpen Scope Z_scope.\n")

GHDR = ("From Coq Require Import List ZArith Bool.\n"
        "From WH Require Import lib.Wire gen.Extracted gen.ExtractedEvmGs model.EvmWatcher model.EvmWatcherCase model.EvmGuardianSet model.EvmGuardianSetCase.\n"
        "Import ListNotations.\nOpen Scope Z_scope.\n")


def gz(n):
    return str(n) if n >= 0 else "(%d)" % n


def gzopt(n):
    """-1 encodes nil / error in the harness rows"""
    return "None" if n < 0 else "(Some %d)" % n


def gzl(l):
    return core.glist(str(x) for x in l)


def gfstep(st):
    aset = "None" if (st["asked"] < 0 or st["seterr"]) else "(Some %s)" % gzl(st["keys"])
    sent = core.glist("(%s, %d)" % (gzl(x["keys"]), x["idx"]) for x in st["sent"])
    return "(%s, %s, %s, %s, %s, %s, %s)" % (gzopt(st["curb"]), gzopt(st["ai"]), gz(st["asked"]), aset, sent, core.gbool(st["err"]), gzopt(st["cura"]))


def gfcase(r):
    return "(%s, %s)" % (core.gbool(r["chan"]), core.glist(gfstep(st) for st in r["steps"]))


def run_gs(ctx):
    """extension X4: the real fetchAndUpdateGuardianSet, one call per step, against the scripted governance contract"""
    rc, out, trace = core.harness_pkg(ctx, "ethereum", "^TestVerifC10GS$", timeout=900)
    rows = [r for r in core.read_jsonl(trace) if r.get("k") == "gs"]
    if rc != 0 or not rows:
        ctx.problem("correspondence", "go harness C10 guardian-set steps", out[-1500:])
        return []
    good = []
    seen = {}
    nsteps = nsent = 0
    shapes = {}
    for r in rows:
        if r.get("panic"):
            ctx.problem("monitor", "fetchAndUpdateGuardianSet panicked: %s" % r["panic"], "history %s" % r["sid"], concrete=True, replay=r, key="gs:panic")
            continue
        if r.get("harness"):
            ctx.problem("correspondence", "harness: " + r["harness"][0], "guardian-set history %s" % r["sid"], concrete=False, replay=r)
            continue
        for m in r.get("mon", []):
            key, _, text = m.partition("|")
            if key in seen:
                seen[key][0] += 1
            else:
                seen[key] = [1, r, text]
        for st in r["steps"]:
            nsteps += 1
            nsent += len(st["sent"])
            sc = st["script"]
            k = "+".join(x for x in ("upg", "mid", "failidx", "failset", "lagset", "oldidx") if sc.get(x)) or "plain"
            shapes[k] = shapes.get(k, 0) + 1
        good.append(r)
    for key, (n, r, text) in sorted(seen.items())[:8]:
        ctx.problem("monitor", text, "observed on the real fetchAndUpdateGuardianSet against the scripted contract (%d occurrences in this run)" % n,
                    concrete=True, replay={"chan": r["chan"], "init": r["init"], "script": [st["script"] for st in r["steps"]], "observed": r["steps"], "monitor": r["mon"]}, key=key)
    ctx.cov["gs_histories"] = len(rows)
    ctx.cov["gs_fetches"] = nsteps
    ctx.cov["gs_sets_sent"] = nsent
    ctx.cov["gs_step_shapes"] = dict(sorted(shapes.items()))
    ctx.cov["gs_monitor_classes"] = {k: v[0] for k, v in seen.items()}
    ctx.evaluations += nsteps
    return good


def gkey(tx, bh, em, seq):
    return "(mkKey %d %d %d %d)" % (tx, bh, em, seq)


def gev(o, bh=None):
    return "(mkEv %d %d %d %d %d %d %d %d %d)" % (o["tx"], o["bh"] if bh is None else bh, o["h"], o["em"], o["seq"], o["cl"], o["no"], o["tg"], o["body"])


def gans(lk):
    """(tx, err) of ethclient.TransactionReceipt as the simulated node made it answer"""
    if lk["c"] == 0:
        return "(mkAns None ENotFound)"      # JSON null -> (nil, ethereum.NotFound)
    if lk["c"] == 1:
        return "(mkAns None EOther)"         # injected RPC failure -> (nil, err)
    return "(mkAns (Some (%d, %d)) ENone)" % (lk["st"], lk["bh"])


def gop(o):
    t = o["t"]
    if t == "log":
        return "(GCOp (COp (OLog %s (Some %d))))" % (gev(o), o["bt"])
    if t == "head":
        lks = core.glist("(%d, %s)" % (lk["tx"], gans(lk)) for lk in o["lk"])
        return "(GCOp (CHead %d %s))" % (o["n"], lks)
    if t == "reobs":
        hb = "None" if o["hb"] < 0 else "(Some %d)" % o["hb"]
        ha = "None" if o["ha"] < 0 else "(Some %d)" % o["ha"]
        bt = "None" if o["bt"] < 0 else "(Some %d)" % o["bt"]
        if o["rc"] is None:
            rc = "None"
        else:
            logs = []
            for l in o["rc"]["logs"]:
                ev = "None" if l["ev"] is None else "(Some %s)" % gev(l["ev"])
                logs.append("(Some (mkRLog %d (Some %d) %s))" % (l["a"], int(l["t0"], 16), ev))
            # noblk: blockNumber null in the receipt (a transaction back in the pool): receipt.BlockNumber is nil
            blk = "None" if o["rc"].get("noblk") else "(Some %d)" % o["rc"]["blk"]
            rc = "(Some (mkRcpt %d %s %s))" % (o["rc"]["st"], blk, core.glist(logs))
        return "(GCOp (COp (OReobs %s %s %s %s)))" % (hb, ha, rc, bt)
    # ---- extension X4: Run returns and is re-entered on the same Watcher value
    if t == "loglost":
        return "(GCLogLost %s)" % gev(o["ev"])
    if t == "polldead":
        return "GCPollDead"
    if t in ("restart", "gsfetch"):
        aset = "None" if (o["asked"] < 0 or o["seterr"]) else "(Some %s)" % gzl(o["keys"])
        return "(%s %s %s %s)" % ("GCRestart" if t == "restart" else "GCFetch", gzopt(o["ai"]), gz(o["asked"]), aset)
    raise ValueError(t)


def gmsg(m):
    return "(mkMsg %d %d %d %d %d %d %d %d %d)" % (m["tx"], m["ts"], m["no"], m["seq"], m["ch"], m["tg"], m["em"], m["body"], m["cl"])


def ggroup(g):
    ops = core.glist(gop(o) for o in g["ops"])
    fw = core.glist(gmsg(m) for m in g["fw"])
    pend = core.glist(gkey(*k) for k in g["pend"])
    sets = core.glist("(%s, %d)" % (gzl(x["keys"]), x["idx"]) for x in g.get("sets") or [])
    return "(%s, %s, %s, %s, %d)" % (ops, fw, pend, sets, g.get("died", 0))


def gcase(r):
    # contract address 1 = the configured core contract (mRLog.a: 1 core, 2 other); cur0 = index of the set the first Run fetched
    return "(mkCfg %s 1 %d, %s, %s)" % (core.gbool(r["cfg"]["wait"]), r["chain"], gzopt(r.get("cur0", 0)), core.glist(ggroup(g) for g in r["groups"]))


def gpoll(r):
    steps = []
    for st in r["steps"]:
        a = "(Some %s)" % st["ans"]["n"] if st["ans"]["kind"] == "num" else "None"
        pub = core.glist("(%s, %s)" % (p[0], p[1]) for p in st["pub"])
        steps.append("(%s, (%s, %s, %s))" % (a, st["last"], pub, core.gbool(st["err"])))
    return "(%s, %s)" % (r["first"], core.glist(steps))


def run_poller(ctx):
    """the real pollBlocks on scripted answers; monitor: only heads the node served are published, under the tag of the mode"""
    rc, out, trace = core.harness_pkg(ctx, "ethereum", "^TestVerifC10Poller$", timeout=600)
    rows = core.read_jsonl(trace)
    if rc != 0 or not rows:
        ctx.problem("correspondence", "go harness C10 poller", out[-1500:])
        return []
    good = []
    npolls = 0
    pubs = 0
    for r in rows:
        if r.get("panic"):
            ctx.problem("monitor", "pollBlocks panicked: %s" % r["panic"], "first lastBlock %s" % r["first"], concrete=True, replay=r, key="poller:panic")
            continue
        ok = True
        for st in r["steps"]:
            npolls += 1
            pubs += len(st["pub"])
            want_tag = "finalized" if r["finalized"] else "latest"
            if st["tag"] != want_tag:
                ctx.problem("monitor", "the poller asked for block %r in %s mode" % (st["tag"], want_tag), "", concrete=True, replay=r, key="poller:block-tag")
                ok = False
                break
            for p in st["pub"]:
                if st["ans"]["kind"] != "num" or p[0] != st["ans"]["n"]:
                    ctx.problem("monitor", "the poller published head %s that the node did not serve in that poll (%s)" % (p[0], st["ans"]),
                                "", concrete=True, replay=r, key="poller:published-head-not-served")
                    ok = False
            if st["last"] == "nil":
                ok = False
                ctx.problem("correspondence", "pollBlocks returned a nil block", "", replay=r)
        if ok:
            good.append(r)
    ctx.cov["poller_cases"] = len(rows)
    ctx.cov["poller_polls"] = npolls
    ctx.cov["poller_published"] = pubs
    ctx.evaluations += npolls
    return good


# ------------------------------------------------------------------ extension X8: from the raw log to the message handed to the signer
LHDR = ("From Coq Require Import List ZArith Bool Strings.Byte Uint63.\n"
        "From WH Require Import lib.Bytes lib.Wire lib.EvmAbi gen.Extracted gen.ExtractedEvmLog model.EvmWatcher model.EvmLog model.EvmLogCase.\n"
        "Import ListNotations.\nOpen Scope Z_scope.\n")
ERR_CLASS = {"sig": 1, "insufficient": 2, "offset": 3, "offset64": 4, "len64": 5, "pad": 6, "topics": 7, "other": 99}
EVM_CONTRACT = "0290fb167208af455bb137780163b7b7a9a10c16"


def gB(hexs):
    return "(B %s)" % core.gbytes(hexs)


def graw(l):
    return "(mkRaw %s %s %s %s %d %s)" % (gB(l["addr"]), core.glist(gB(t) for t in l["topics"]), gB(l["data"]), gB(l["bh"]), l["num"], gB(l["tx"]))


def ghmsg(m):
    return "(mkH %s %s %d %d %d %d %s %d %d %d)" % (gB(m["tx"]), gz(m["ts"]), m["nonce"], m["seq"], m["chain"], m["target"], gB(m["em"]),
                                                    len(m["payload"]) // 2, core.hash_bytes(m["payload"]), m["cl"])


def grcpt(rc):
    if rc is None:
        return "None"
    logs = core.glist("None" if l is None else "(Some %s)" % graw(l) for l in rc["logs"])
    return "(Some (mkXRcpt %d %s %s))" % (rc["status"], gzopt(rc["blk"]), logs)


def glcase(r):
    if r["k"] == "parse":
        res = r["res"]
        if res["out"] == "ok":
            e = res["ev"]
            p = "(POk %s %d %d %d %d %d %d)" % (gB(e["sender"]), e["target"], e["seq"], e["nonce"], len(e["payload"]) // 2, core.hash_bytes(e["payload"]), e["cl"])
        elif res["out"] == "err":
            p = "(PErr %d)" % ERR_CLASS.get(res["err"], 99)
        else:
            p = "PPanic"
        return "(LParse %s %s)" % (graw(r["log"]), p)
    if r["k"] == "bytx":
        res = r["res"]
        if res["out"] == "ok":
            b = "(BOk %d %s)" % (res["blk"], core.glist(ghmsg(m) for m in res["msgs"]))
        elif res["out"] == "err":
            b = "BErr"
        else:
            b = "BPanic"
        rc = "None" if r["rcerr"] else grcpt(r["rc"])
        bt = "None" if r["bterr"] else "(Some %d)" % r["bt"]
        return "(LByTx (mkXCfg false %s %d) %s %s %s)" % (gB(EVM_CONTRACT), r["chain"], rc, bt, b)
    groups = []
    for g in r["groups"]:
        ops = []
        for o in g["ops"]:
            if o["t"] == "log":
                ops.append("(XCLog %s %d)" % (graw(o["log"]), o["bt"]))
            elif o["t"] == "head":
                lks = core.glist("(%s, %s)" % (gB(lk["tx"]), "LNotFound" if lk["c"] == 0 else "LErr" if lk["c"] == 1 else "(LRc %d %s)" % (lk["st"], gB(lk["bh"])))
                                 for lk in o["lk"])
                ops.append("(XCHead %d %s)" % (o["n"], lks))
            else:
                ops.append("(XCReobs %d %s (Some %d))" % (o["hb"], grcpt(o["rc"]), o["bt"]))
        pend = core.glist("(%s, %s, %s, %d, %d)" % (gB(p["tx"]), gB(p["bh"]), gB(p["em"]), p["seq"], p["h"]) for p in g["pend"])
        groups.append("(%s, %s, %s, %d)" % (core.glist(ops), core.glist(ghmsg(m) for m in g["fw"]), pend, g["died"]))
    return "(LRun (mkXCfg %s %s %d) %s)" % (core.gbool(r["cfg"]["wait"]), gB(EVM_CONTRACT), r["chain"], core.glist(groups))


def lweight(r):
    if r["k"] == "parse":
        return 20 + len(r["log"]["data"]) // 14
    if r["k"] == "bytx":
        return 40 + sum(len(l["data"]) // 14 for l in ((r["rc"] or {}).get("logs") or []) if l)
    n = 60
    for g in r["groups"]:
        for o in g["ops"]:
            if o.get("log"):
                n += 30 + len(o["log"]["data"]) // 14
            if o.get("rc"):
                n += sum(30 + len(l["data"]) // 14 for l in o["rc"]["logs"] if l)
            n += 10 * len(o.get("lk") or [])
        n += 20 * (len(g["fw"]) + len(g["pend"]))
    return n


def run_log(ctx):
    """extension X8: raw logs (arbitrary data bytes / topics) through the real ParseLogMessagePublished, MessageEventsForTransaction and Run"""
    rc, out, trace = core.harness_pkg(ctx, "ethereum", "^TestVerifC10Log$", race=(ctx.tier == "thorough"), timeout=1800)
    rows = core.read_jsonl(trace)
    if rc != 0 or not rows:
        ctx.problem("correspondence", "go harness C10 raw logs", out[-2500:])
        return []
    fam = {}
    kinds = {}
    outcomes = {}
    seen = {}
    nfw = 0
    crash = [r for r in rows if r["k"] == "crash"]
    rows = [r for r in rows if r["k"] in ("parse", "bytx", "run")]
    # experiment, reported as coverage only (not one of the 20 properties: the node has to serve a log the core contract cannot emit)
    ctx.cov["rawlog_experiment_topicless_core_log_ends_the_process"] = {r["how"]: {k: r[k] for k in ("exit", "panic", "where", "reason")} for r in crash}
    for r in rows:
        fam[r["k"]] = fam.get(r["k"], 0) + 1
        for m in r.get("mon") or []:
            key, _, text = m.partition("|")
            if key in seen:
                seen[key][0] += 1
            else:
                seen[key] = [1, r, text]
        if r["k"] == "parse":
            kinds[r["log"]["kind"]] = kinds.get(r["log"]["kind"], 0) + 1
            o = r["res"]["out"] + (":" + r["res"]["err"] if r["res"].get("err") else "")
            outcomes["parse " + o] = outcomes.get("parse " + o, 0) + 1
            if r["res"]["out"] == "err" and r["res"]["err"] == "other":
                ctx.problem("correspondence", "harness: an UnpackLog error text the harness does not know", r["res"].get("errtext"), concrete=False, replay=r)
        elif r["k"] == "bytx":
            outcomes["bytx " + r["res"]["out"]] = outcomes.get("bytx " + r["res"]["out"], 0) + 1
            nfw += len(r["res"]["msgs"])
        else:
            for h in (r.get("harness") or [])[:1]:
                ctx.problem("correspondence", "harness: " + h, "raw-log history %s" % r["cfg"]["name"], concrete=False,
                            replay={"cfg": r["cfg"], "script": r["script"], "harness": r["harness"]})
            for g in r["groups"]:
                nfw += len(g["fw"])
                outcomes["run died"] = outcomes.get("run died", 0) + g["died"]
                for o in g["ops"]:
                    if o.get("log"):
                        kinds["run:" + o["log"]["kind"]] = kinds.get("run:" + o["log"]["kind"], 0) + 1
    for key, (n, r, text) in sorted(seen.items())[:8]:
        if r["k"] == "run":
            rp = {"family": "run", "cfg": r["cfg"], "script": r["script"], "observed": r["groups"], "monitor": r["mon"]}
        else:
            rp = {"family": r["k"], "case": {k: v for k, v in r.items() if k != "mon"}, "monitor": r["mon"]}
        ctx.problem("monitor", text[:900], "observed on the real %s (%d occurrences in this run)" % (
            {"parse": "ParseLogMessagePublished", "bytx": "MessageEventsForTransaction", "run": "Watcher.Run"}[r["k"]], n), concrete=True, replay=rp, key=key)
    ctx.cov["rawlog_cases"] = fam
    ctx.cov["rawlog_kinds"] = dict(sorted(kinds.items()))
    ctx.cov["rawlog_outcomes"] = dict(sorted(outcomes.items()))
    ctx.cov["rawlog_messages_compared_in_full"] = nfw
    ctx.cov["rawlog_monitor_classes"] = {k: v[0] for k, v in seen.items()}
    ctx.evaluations += len(rows)
    return [r for r in rows if not (r["k"] == "run" and r.get("harness"))]


def run(ctx):
    st = core.run_extract(ctx, ["evm_watcher", "evm_by_tx", "evm_poller", "evm_guardian_set", "evm_log_abi", "evm_log_unpack", "evm_log_literals", "evm_log_sol"])
    if os.environ.get("VERIF_C10_SKIP_COQ") != "1":
        core.coq_prove(ctx, "C10", extra_targets=["model/EvmWatcherCase.vo", "model/EvmGuardianSetCase.vo", "model/EvmLogCase.vo"])
        if ctx.tier == "thorough":
            core.coq_thorough_audit(ctx, "C10")
    env = {}
    if ctx.replay:
        env["VERIF_C10_REPLAY"] = os.path.abspath(ctx.replay)
    rc, out, trace = core.harness_pkg(ctx, "ethereum", "^TestVerifC10$", env=env, race=(ctx.tier == "thorough"), timeout=2400)
    rows = core.read_jsonl(trace)
    if rc != 0 or not rows:
        ctx.problem("correspondence", "go harness C10", out[-2500:])
        return
    for r in rows:
        # a scenario that could not even be started (reported below as a machinery problem of the harness) has no groups
        r["groups"] = r.get("groups") or []
        r["mon"] = r.get("mon") or []
    # ---- coverage
    ctx.evaluations = sum(len(r["groups"]) for r in rows)
    stats = {}
    for r in rows:
        for k, v in (r.get("stats") or {}).items():
            stats[k] = stats.get(k, 0) + v
    ctx.cov["harness_stats"] = stats
    ctx.cov["histories"] = len(rows)
    ctx.cov["modes"] = {"wait": sum(1 for r in rows if r["cfg"]["wait"]), "no_wait": sum(1 for r in rows if not r["cfg"]["wait"]),
                        "finalized_polling": sum(1 for r in rows if r["cfg"]["finalized"]),
                        "sentinel(poller always on)": sum(1 for r in rows if r["cfg"].get("sentinel")),
                        "idle(poller switched off while nothing pends)": sum(1 for r in rows if not r["cfg"].get("sentinel"))}
    ophist = {}
    jump = {"+1": 0, "2..29": 0, "30..59": 0, ">=60": 0}
    for r in rows:
        prev = r["cfg"]["head0"]
        away = False
        for s in r["script"]:
            k = s["op"] + (":" + s["how"] if s.get("how") else "") + (":errall" if s.get("errall") else "") + (":errtx" if s.get("errtx") else "") + \
                (":pollfail" if s.get("pollfail") else "") + (":bump" if s.get("bump") else "") + (":headerr" if s.get("headerr") else "") + \
                (":rcpterr" if s.get("rcpterr") else "") + (":bbherr" if s.get("bbherr") else "") + (":extras" if s.get("extras") else "") + \
                (":" + s["kill"] if s.get("kill") else "") + (":gsfail-" + s["gsfail"] if s.get("gsfail") else "") + (":upg" if s.get("upg") else "") + \
                (":reader-away" if r["cfg"].get("slowreader") and s["op"] in ("head", "stall", "log", "restart") and away else "")
            if s["op"] == "pause-reader":
                away = True
            elif s["op"] == "resume-reader":
                away = False
            ophist[k] = ophist.get(k, 0) + 1
            if s["op"] == "head" and s.get("to", 0) > prev:
                d = s["to"] - prev
                jump["+1" if d == 1 else "2..29" if d < 30 else "30..59" if d < 60 else ">=60"] += 1
                prev = s["to"]
    ctx.cov["script_step_hist"] = dict(sorted(ophist.items()))
    ctx.cov["head_advance_hist"] = jump
    nontrivial = [r for r in rows if (r.get("stats") or {}).get("lookups", 0) > 0 or (r.get("stats") or {}).get("forwarded", 0) > 0]
    ctx.distinct = len({json.dumps(r["script"], sort_keys=True) + json.dumps(r["cfg"], sort_keys=True) for r in nontrivial})
    ctx.rule = ("histories = fixed corpus (witnesses of the two liveness defects, boundary jumps, orphan/re-mine/fail, re-observation filters) + scripts generated "
                "from the seed (logs incl. two per tx / repeated / re-announced after a move, heads +1 / small / to depth and window boundaries +-1 / jumps of 30..330, "
                "stalls, receipts gone / moved / failed / restored, transient receipt errors for all or one tx, failed polls, re-observation requests with "
                "head/receipt/block-time errors, chain advancing between the two reads, foreign-contract / other-topic / never-announced logs in the receipt; "
                "in about 6% of the generated histories and in six fixed ones the message channel is unbuffered as in node.go and the reader is away while heads are "
                "processed: hand-over parked in the send, reader back later, Run made to return meanwhile by a dropped connection); "
                "distinct by (config, script), non-trivial = at least one receipt lookup or forwarded message")
    ctx.samples = [{"cfg": r["cfg"], "script": r["script"][:6], "first_groups": r["groups"][:3]} for r in rows[:2]]

    # ---- machinery problems of the harness itself
    for r in rows:
        for h in r.get("harness", [])[:1]:
            ctx.problem("correspondence", "harness: " + h, "history %s" % r["cfg"]["name"], concrete=False,
                        replay={"cfg": r["cfg"], "script": r["script"], "harness": r["harness"]})
            break
    # ---- monitors (Go side, on the node's ground truth)
    seen = {}
    nmon = 0
    for r in rows:
        for m in r.get("mon", []):
            nmon += 1
            key, _, text = m.partition("|")
            if key in seen:
                seen[key][0] += 1
                continue
            seen[key] = [1, r, text]
    for key, (n, r, text) in sorted(seen.items())[:8]:
        ctx.problem("monitor", text, "observed on the real Watcher.Run (%d occurrences in this run); history %s" % (n, r["cfg"]["name"]), concrete=True,
                    replay={"cfg": r["cfg"], "script": r["script"], "maxwait": r.get("maxwait"), "monitor": [m for m in r["mon"]],
                            "observed": r["groups"]}, key=key)
    ctx.cov["monitor_messages"] = nmon
    # experimental monitors (reported as coverage only; none at present: the two of extension X4 are registered monitors now)
    exps = {}
    for r in rows:
        for m in r.get("exp") or []:
            key, _, text = m.partition("|")
            if key not in exps:
                exps[key] = [0, text, r["cfg"]["name"]]
            exps[key][0] += 1
    ctx.cov["experimental_monitor_classes"] = {k: {"occurrences": v[0], "first": v[1][:400], "history": v[2]} for k, v in sorted(exps.items())}
    # hand-over under back-pressure: unbuffered message channel (as lockC in node.go), the harness's reader plays the busy processor
    slow = [r for r in rows if r["cfg"].get("slowreader")]
    ctx.cov["hand_over_under_back_pressure"] = {
        "histories_with_unbuffered_channel_and_scripted_reader": len(slow),
        "of_which_generated": sum(1 for r in slow if r["cfg"]["name"].startswith("gen-")),
        "hand_overs_parked_in_the_send (scan open, pendingMu held, reader away)": stats.get("hand_overs_parked", 0),
        "restarts_of_Run_while_a_hand_over_was_parked": stats.get("restarts_while_parked", 0),
        "hand_overs_written_off (decided by the watcher, taken by nobody)": stats.get("hand_overs_written_off", 0),
        "judged_by": "Go monitors (exactly once, justification by the receipt lookup of the scan that decided, lost-in-hand-over) and the Coq model "
                     "(the steps from the head that parks to the step that ends the hand-over are one group: the model has no processor, a parked send "
                     "is the same model step as an immediate one); histories in which Run returned while a hand-over was parked are judged by the monitors only",
    }
    ctx.cov["receipts_without_block (transaction back in the pool: status 1, blockHash null, blockNumber null)"] = {
        "histories_with_reorg_pooled": sum(1 for r in rows if any(s.get("how") == "pooled" for s in r["script"])),
        "such_receipts_served_to_the_watcher": stats.get("receipts_served_without_block", 0)}
    ctx.cov["restarts_of_Run"] = stats.get("restarts", 0)
    ctx.cov["histories_with_restarts"] = sum(1 for r in rows if (r.get("stats") or {}).get("restarts"))
    ctx.cov["monitor_classes"] = {k: v[0] for k, v in seen.items()}
    prows = []
    grows = []
    lrows = []
    if not ctx.replay:
        prows = run_poller(ctx)
        grows = run_gs(ctx)
        lrows = run_log(ctx)
    if os.environ.get("VERIF_C10_SKIP_COQ") == "1":
        return
    # other checks may have regenerated gen/Extracted.vo while the harness ran: bring the glue up to date (no-op otherwise)
    core.coq_make(["model/EvmWatcherCase.vo", "model/EvmGuardianSetCase.vo", "model/EvmLogCase.vo"])
    if lrows:
        lbad = core.run_cases(ctx, "cases_C10log", lrows, LHDR, "lcase", glcase, "Definition ok (c : lcase) : bool := check_lcase c.", weight=lweight)
        if lbad is not None:
            what = {"parse": "model decode_log differs from ParseLogMessagePublished (fields / error class / panic)",
                    "bytx": "model xevents_for_tx differs from MessageEventsForTransaction (block, full messages / error / panic)",
                    "run": "model raw-log history differs from Watcher.Run (full forwarded messages / pending keys and heights / receipt lookups / returns of Run)"}
            shown = {}
            for i in lbad:
                r = lrows[i]
                if shown.get(r["k"], 0) >= 2:
                    continue
                shown[r["k"]] = shown.get(r["k"], 0) + 1
                rp = {"family": r["k"], "cfg": r["cfg"], "script": r["script"], "observed": r["groups"]} if r["k"] == "run" else {"family": r["k"], "case": r}
                ctx.problem("correspondence", what[r["k"]], "case %s of family %s" % (r.get("id"), r["k"]), concrete=False, replay=rp)
            ctx.cov["rawlog_mismatches"] = len(lbad)
            ctx.cov["rawlog_cases_validated_in_coq"] = len(lrows)
    if grows:
        gok = "Definition ok (c : bool * list fcase) : bool := let '(has, l) := c in check_fetches has None l."
        gbad = core.run_cases(ctx, "cases_C10gs", grows, GHDR, "bool * list fcase", gfcase, gok, nshards=4)
        if gbad is not None:
            for i in gbad[:3]:
                r = grows[i]
                ctx.problem("correspondence", "model fetch differs from fetchAndUpdateGuardianSet (set sent / error / remembered index / index named in the set call)",
                            "guardian-set history %s" % r["sid"], concrete=False,
                            replay={"chan": r["chan"], "init": r["init"], "script": [st["script"] for st in r["steps"]], "observed": r["steps"]})
            ctx.cov["gs_mismatches"] = len(gbad)
    if prows:
        pok = "Definition ok (c : Z * list (option Z * (Z * list (Z * bool) * bool))) : bool := let '(l, st) := c in check_polls l st."
        pbad = core.run_cases(ctx, "cases_C10p", prows, HDR, "Z * list (option Z * (Z * list (Z * bool) * bool))", gpoll, pok, nshards=4)
        if pbad is not None:
            for i in pbad[:3]:
                ctx.problem("correspondence", "model poll_blocks differs from BlockPollConnector.pollBlocks (lastBlock / published heads / error)",
                            "first lastBlock %s" % prows[i]["first"], concrete=False, replay=prows[i])
            ctx.cov["poller_mismatches"] = len(pbad)
    # ---- model vs implementation, history by history, inside Coq
    # Run returning while a goroutine of it is still parked in the send, and that goroutine finishing its scan next to the re-entered
    # Run, is outside the model (goroutines of a returned Run are not interleaved with the new ones): monitors only
    good = [r for r in rows if not r.get("harness") and not (r.get("stats") or {}).get("restarts_while_parked")]
    ctx.cov["histories_judged_by_monitors_only (Run returned while a hand-over was parked)"] = sum(1 for r in rows if (r.get("stats") or {}).get("restarts_while_parked"))
    okdef = "Definition ok (c : cfg * option Z * list ggroup) : bool := let '(w, cur0, gs) := c in check_ghistory w cur0 gs."
    bad = core.run_cases(ctx, "cases_C10", good, GHDR, "cfg * option Z * list ggroup", gcase, okdef,
                         weight=lambda r: sum(len(g["ops"]) + len(g["pend"]) for g in r["groups"]))
    if bad is None:
        return
    for i in bad[:3]:
        r = good[i]
        ctx.problem("correspondence", "model history differs from Watcher.Run (forwarded messages / pending set / receipt lookups / guardian sets sent / returns of Run)",
                    "history %s" % r["cfg"]["name"], concrete=False,
                    replay={"cfg": r["cfg"], "script": r["script"], "observed": r["groups"]})
    ctx.cov["traces_validated_against_impl"] = len(good)
    ctx.cov["mismatches"] = len(bad)
    ctx.assumptions = [
        "the simulated node answers over go-ethereum's real rpc server/client (websocket); TLS, HTTP transports and provider quirks are not simulated",
        "the log subscription's address/topic filter is applied by the node (the harness checks that the real subscription request names the core contract and the LogMessagePublished topic and applies it like a node would)",
        "restarts of Run (errC -> the supervisor re-enters Run on the same Watcher value) are part of the model (model/EvmGuardianSet.v) and of the histories; goroutines of a returned Run that are still finishing when Run is re-entered are not interleaved with the new ones (the supervisor backs off >= 250 ms); a failing block-time lookup on the log path ends Run before the log is recorded: open known finding liveness:log-lost-on-blocktime-error",
        "the state `w.pending non-empty and block poller off` is observed as: not one eth_getBlockByNumber request for 5 s at a 1 ms poll interval while messages are pending and no insertion is in flight (monitor liveness:pending-with-poller-off)",
        "hand-over to the processor: in the hand-over histories the message channel is unbuffered (as lockC in node/cmd/guardiand/node.go) and a scripted reader stands for the processor; 'the moment of forwarding' of a parked hand-over is the moment the watcher decided (its receipt lookup in the scan), not the moment the reader took the message; a hand-over is written off 6 s after the reader is back and Run is up again",
        "the head subscription delivers what the poller publishes in order (go-ethereum event.Feed); the watcher's own 'processing new header' / 'processed new header' log lines are the trace of head processing (a rewording shows up as rendezvous timeouts)",
        "a transaction that a reorg put back into the pool is answered either 'not found' (geth) or with a pending-style receipt (status 1, blockHash null, blockNumber null, no logs; go-ethereum decodes null as the zero hash / nil number): such a receipt does not point to the block of the log, so the message must not be forwarded (the pinned scan drops the entry as re-mined; the re-observation path fails at the block-time lookup of the zero hash, which the simulated node answers null like a real node)",
        "receipts whose JSON does not unmarshal (non-nil receipt together with an error) are not generated",
        "logs with an empty topic list / a receipt without block number inside a re-observed receipt make the real code panic (Topics[0], BlockNumber.Uint64()); modelled as explicit Panic outcomes, exercised on the real MessageEventsForTransaction / ParseLogMessagePublished under recover (extension X8) and, as an experiment in a child process, on the real Run (the process ends): robustness remark, needs a node that serves a log the core contract cannot emit",
        "extension X8: raw logs reach the code through go-ethereum's JSON decoding of logs / receipts (exercised, not modelled; topics are 32-byte hashes, addresses 20 bytes by construction of the Go types); abigen's copy of the unpacked values into the event struct is by field name as read from abi.go; error classes are read off go-ethereum's error texts ('length insufficient' is the text of two different checks and compared as one class)",
        "uint64 wrap-around of height + consistency level + maxWaitConfirmations is excluded by the range hypotheses of the theorems (block numbers < 2^64 - 315); C10_range_hypothesis_needed shows the wrap",
    ]
