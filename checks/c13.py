"""C13 — no untrusted input can crash the signing pipeline."""
import core
import proc_common as P

def run(ctx):
    # X9: the premise of C13 ("a panic there terminates the whole guardian process") as theorems about node.go's supervisor configuration
    st = core.run_extract(ctx, ["servicetree", "supervisor_options"])
    tree_cov = dict(ctx.cov.get("extractors") or {})
    rows = P.pipeline(ctx, "C13")
    ctx.cov.setdefault("extractors", {}).update(tree_cov)
    if not ctx.replay:
        import c18
        c18.x9_run(ctx, st, pid="C13", only="panic")     # a panic in a supervised test service under node.go's options, in a child process
    if rows is None:
        return
    ctx.rule = ("generated + scripted histories over the processor's inputs (chain messages incl. empty/nil/long payloads and extreme timestamps, injections before/after the first set, "
                "observations valid/forged/short/over-long/odd address lengths, inbound VAAs valid/garbage/under-quorum/other set, set updates incl. the empty set, cleanup ticks at ages around every threshold) "
                "run against the real handlers under recover(); evaluations = histories; distinct non-trivial = distinct op sequences that produced at least one output")
    ctx.cov["panics_observed"] = sum(1 for h in rows for s in h["steps"] if s.get("panic"))
    ctx.assumptions = P.COMMON_ASSUMPTIONS + [
        "guardianSigner.Sign never fails (ECDSA signing of a 32-byte digest with a valid key); proto.Marshal of the node's own messages never fails; both would panic and are trusted library behaviour",
        "the Run loop's select glue is exercised by the harness's TestVerifProcRun subset only (thorough tier)",
        "X9: 'an unrecovered panic in any goroutine terminates the process' is the model's rule (Go semantics); the supervisor option and the absence of a recover around the "
        "services are read from node.go / the services' packages by text (name-based reachability inside the package)"]
