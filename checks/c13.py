"""C13 — no untrusted input can crash the signing pipeline."""
import core
import proc_common as P

def heartbeat_race(ctx):
    """cleanup ticks with a notifier configured against a concurrent heartbeat writer (own go test invocation: the failure mode is a
    fatal runtime error that ends the process, as it would end the guardian)"""
    rc, out, trace = core.harness_pkg(ctx, "processor", "^TestVerifC13HeartbeatRace$", timeout=900, race=(ctx.tier == "thorough"))
    rows = core.read_jsonl(trace)
    for r in rows:
        if r.get("k") == "c13hb-volume":
            ctx.cov["cleanup_vs_heartbeat_writer"] = {k: v for k, v in r.items() if k != "k"}
    fatal = [l for l in out.split("\n") if l.startswith("fatal error:") or "DATA RACE" in l]
    if fatal:
        i = out.index(fatal[0])
        frames = [l.strip() for l in out[i:i + 6000].split("\n") if "wormhole-fork/node/pkg" in l and "(" in l][:4]
        ctx.problem("monitor", "the process died during a cleanup tick while a heartbeat was being stored: `%s`; frames: %s" % (fatal[0].strip(), " <- ".join(frames)),
                    "real handleCleanup (notifier configured, 4 guardians, 3 signatures) against a concurrent GuardianSetState.SetHeartbeat writer", concrete=True,
                    replay={"schedule": "cleanup ticks over settling messages with one missing guardian while heartbeats of that guardian are stored", "output": out[i:i + 3000]},
                    key="heartbeat-table:fatal")
        return
    done = [r for r in rows if r.get("k") == "c13hb"]
    if rc != 0 or not done:
        ctx.problem("correspondence", "go harness C13 (cleanup tick against a heartbeat writer)", out[-1500:])
        return
    for m in done[0].get("mon") or []:
        ctx.problem("monitor", m, "observed on the real GuardianSetState", concrete=True, replay={"monitor": m}, key="heartbeat-table:" + ("live" if "live map" in m else "setup"))


def run(ctx):
    # X9: the premise of C13 ("a panic there terminates the whole guardian process") as theorems about node.go's supervisor configuration
    st = core.run_extract(ctx, ["servicetree", "supervisor_options"])
    tree_cov = dict(ctx.cov.get("extractors") or {})
    rows = P.pipeline(ctx, "C13")
    ctx.cov.setdefault("extractors", {}).update(tree_cov)
    if not ctx.replay:
        import c18
        c18.x9_run(ctx, st, pid="C13", only="panic")     # a panic in a supervised test service under node.go's options, in a child process
    if not ctx.replay:
        heartbeat_race(ctx)
    if rows is None:
        return
    ctx.rule = ("generated + scripted histories over the processor's inputs (chain messages incl. empty/nil/long payloads and extreme timestamps, injections before/after the first set, "
                "observations valid/forged/short/over-long/odd address lengths, inbound VAAs valid/garbage/under-quorum/other set, set updates incl. the empty set, cleanup ticks at ages around every threshold) "
                "run against the real handlers under recover(); evaluations = histories; distinct non-trivial = distinct op sequences that produced at least one output")
    ctx.cov["panics_observed"] = sum(1 for h in rows for s in h["steps"] if s.get("panic"))
    ctx.assumptions = P.COMMON_ASSUMPTIONS + [
        "guardianSigner.Sign never fails (ECDSA signing of a 32-byte digest with a valid key); proto.Marshal of the node's own messages never fails; both would panic and are trusted library behaviour",
        "the Run loop's select glue is exercised by the harness's TestVerifProcRun subset only (thorough tier)",
        "X9: 'an unrecovered panic in any goroutine terminates the process' is the model's rule (Go semantics); the supervisor option and the absence of a recover around the "
        "services are read from node.go / the services' packages by text (name-based reachability inside the package)"]
