"""X11 — differential test of the function GENERATED from governance.ral parseAndVerifyVAA (gen/x_ralverify.py: every statement, the
signature loop, getGuardiansInfo) against the node, shared by C04 and C07 (one call each: `ralverify_common.differential(ctx)`).

Go side (harness/vaa TestVerifRalSrc): VAAs from the real Marshal with real secp256k1 signatures and malformed streams derived from
them, a contract state, and what the node does with each stream (Unmarshal, VerifySignatures over the keys of the set the VAA names,
fields, SigningMsg) plus the go-ethereum recoveries.  Coq side (model/RalVerifyRun.v, vm_compute): the generated function with
keccak256! := lib/Keccak.v and ethEcRecover! := the recorded recoveries must accept exactly the streams the node considers complete
(its own quorum go_quorum, generated from quorum.go) from a set the contract may use, hand back the node's field values and have
verified against the node's digest.  Every disagreement is a concrete input (stream + contract state)."""
import core, re

HDR = ("From Coq Require Import Uint63.\nFrom Coq Require Import List ZArith Bool Arith Strings.Byte.\n"
       "From WH Require Import lib.Bytes lib.Wire lib.Ralph gen.Extracted model.RalVerifyModel model.RalVerifyRun.\n"
       "Import ListNotations.\nOpen Scope Z_scope.\n")

VERDICT = {1: "the contract (governance.ral parseAndVerifyVAA, translated from the tree) ACCEPTS a byte stream the node does not consider a complete VAA",
           2: "the contract (governance.ral parseAndVerifyVAA, translated from the tree) ABORTS on a VAA the node considers complete",
           3: "the contract (governance.ral parseAndVerifyVAA, translated from the tree) hands back other field values than the node reads from the same bytes",
           4: "the contract (governance.ral parseAndVerifyVAA, translated from the tree) verifies the signatures against another digest than the node signs"}


def gcase(r):
    b = lambda h: "B " + core.gbytes(h)
    tbl = core.glist("(%s, %s, %s)" % (b(e["h"]), b(e["s"]), "None" if e["a"] is None else "Some (%s)" % b(e["a"])) for e in r["tbl"])
    st = ("{| gs_cur_idx := %d; gs_cur := %s; gs_prev_idx := %d; gs_prev := %s; gs_now := %s; gs_prev_exp := %s |}"
          % (r["cur_idx"], b(r["cur"]), r["prev_idx"], b(r["prev"]), r["now"], r["exp"]))
    return ("{| c_wire := %s; c_gov := %s; c_st := %s; c_um := %s; c_named := %d; c_n := %d; c_nsig := %d; c_verify := %s; c_ec := %d; c_tc := %d; "
            "c_ea := %s; c_sq := %s; c_pl := %s; c_digest := %s; c_tbl := %s; c_skip := %s |}"
            % (b(r["wire"]), core.gbool(r["gov"]), st, core.gbool(r["um"]), r["named"], r["n"], r["nsig"], core.gbool(r["verify"]), r["ec"], r["tc"],
               b(r["ea"]), r["sq"], b(r["pl"]), b(r["digest"]), tbl, core.gbool(bool(r["skip"]))))


def replay_of(r, extra=None):
    d = {k: r[k] for k in r if k not in ("mon", "tbl", "k")}
    d["recoveries"] = len(r["tbl"])
    d["how"] = ("evaluate governance.ral parseAndVerifyVAA(wire, gov) on a contract with guardianSetIndexes = [prev_idx, cur_idx], guardianSets = [prev, cur], "
                "previousGuardianSetExpirationTimeMS = exp at block time now; node side: vaa.Unmarshal(wire), VerifySignatures(keys of the named set), CalculateQuorum")
    if extra:
        d.update(extra)
    return d


def differential(ctx):
    prev = dict(ctx.cov.get("extractors", {}))
    st = core.run_extract(ctx, ["ral_verify_full"])
    ctx.cov["extractors"] = dict(prev, **ctx.cov.get("extractors", {}))
    ok, out = core.coq_make(["model/RalVerifyRun.vo"])
    if not ok:
        m = re.search(r'File "([^"]+)", line (\d+)[^\n]*\n(Error:.*?)(?:\n\n|\nmake)', out, re.S)
        ctx.problem("correspondence", "build of the run glue for the translated governance.ral parseAndVerifyVAA",
                    ("%s:%s %s" % (m.group(1), m.group(2), m.group(3).strip()[:400])) if m else out[-600:])
        return
    # the volume of the thorough tier (set sizes up to 255, ~4000 streams, ~100 s) is spent once, in C07; C04 always runs the quick volume
    tier = ctx.tier if ctx.pid == "C07" else "quick"
    rc, out, trace = core.harness_pkg(ctx, "vaa", "^TestVerifRalSrc$", env={"VERIF_TIER": tier})
    rows = [r for r in core.read_jsonl(trace) if r.get("k") == "ralsrc"]
    if rc != 0 or not rows:
        ctx.problem("correspondence", "go harness TestVerifRalSrc", out[-1500:])
        return
    for r in rows:
        for m in r.get("mon", []):
            ctx.problem("machinery", m, "TestVerifRalSrc, case %s" % r["kind"])
    kinds = {}
    for r in rows:
        kinds[r["kind"]] = kinds.get(r["kind"], 0) + 1
    info = ((st.get("ral_verify_full") or {}).get("info") or {}).get("functions", {}).get("parseAndVerifyVAA", {})
    ctx.cov["ral_source_differential"] = {"streams": len(rows), "kinds": len(kinds), "node_accepts_parse": sum(1 for r in rows if r["um"]),
                                          "node_verifies": sum(1 for r in rows if r["verify"]), "set_sizes": sorted({r["n"] for r in rows if r["named"]}),
                                          "translated_statements": {"asserts": info.get("asserts"), "loops": len(info.get("loops") or []), "reads": info.get("reads")}}
    bad = core.run_cases(ctx, "cases_ralsrc", rows, HDR, "rcase", gcase, "",
                         weight=lambda r: len(r["wire"]) // 2 + 120 * len(r["tbl"]) + 400)
    if bad is None:
        return
    ctx.cov["ral_source_differential"]["disagreements"] = len(bad)
    if not bad:
        return
    # which way each disagreement goes (one small evaluation), the first of every (verdict, kind) class is reported
    sel = bad[:40]
    okd, o = core.coq_eval(ctx, "cases_ralsrc_diag", HDR + "Definition cases : list rcase := %s.\nDefinition D := Eval vm_compute in map verdict cases.\nPrint D.\n"
                           % core.glist(gcase(rows[i]) for i in sel))
    d = core.zlist(core.parse_print(o, "D") or "") if okd else []
    seen = set()
    for j, i in enumerate(sel):
        r = rows[i]
        v = d[j] if j < len(d) else 0
        cls = (v, r["kind"])
        if cls in seen or len(seen) >= 6:
            continue
        seen.add(cls)
        node = ("node: Unmarshal %s, names the %s set (%d guardians), %d signatures, VerifySignatures %s, isGovernanceVAA %s"
                % ("ok" if r["um"] else "fails", {0: "unknown", 1: "current", 2: "previous"}[r["named"]], r["n"], r["nsig"], r["verify"], r["gov"]))
        ctx.problem("monitor", "%s (case `%s`)" % (VERDICT.get(v, "the translated contract function and the node disagree"), r["kind"]), node,
                    concrete=True, replay=replay_of(r, {"verdict": v}), key="ralsrc:%d" % v)
