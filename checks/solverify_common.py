"""X12 — differential test of the TRANSLATED Messages.sol entry point (gen/x_solverify.py -> coq/gen/ExtractedSolVerify.v) against the Go
side, shared by C04 (what the contract parses and hashes) and C07 (what it accepts).

For wire VAAs the real (*VAA).Marshal produced with real secp256k1 signatures, and malformed variants of them (harness/vaa
zz_verif_solsrc_test.go), the generated functions src_parseVM / src_parseAndVerifyVM are evaluated INSIDE Coq (model/SolVerifyRun.v:
Gallina Keccak-256 as keccak256, the recorded go-ethereum recoveries as ecrecover) and must
  * accept exactly the rows the node accepts (Unmarshal + VerifySignatures + floor(2n/3)+1),
  * return the field values, signature records and digest the node's Unmarshal / SigningMsg return,
  * return what checks/sol_interp.py (the second, independent reading of parseVM) reads from the same bytes.
Every disagreement is a concrete input (wire bytes + key list)."""
import os, re
import core

NAMES = ["sol_src_structs", "sol_src_parsevm", "sol_src_verifysignatures", "sol_src_verifyvm", "sol_src_parseandverifyvm"]

HDR = ("From Coq Require Import Uint63.\nFrom Coq Require Import List ZArith Bool Arith Strings.Byte.\n"
       "From WH Require Import lib.Bytes lib.Wire gen.Extracted gen.ExtractedSolVerify model.SolVerifyRun.\n"
       "Import ListNotations.\nOpen Scope Z_scope.\n")
CASE_T = "list byte * list (list byte) * list (list byte * list byte) * list byte * bool * Z * Z"
OKDEF = ("Definition ok (c : %s) : bool := let '(w, keys, tbl, h, acc, gf, itf) := c in row_ok hash_bytes w keys tbl h acc gf itf." % CASE_T)


def fields_bytes(version, gsidx, ts, nonce, echain, tchain, eaddr, seq, cl, payload, digest, sigs):
    """same encoding as SolVerifyRun.fields_bytes; sigs = [(index, r, s, v)]"""
    out = bytes([version % 256]) + (gsidx % 2**32).to_bytes(4, "big") + (ts % 2**32).to_bytes(4, "big") + (nonce % 2**32).to_bytes(4, "big")
    out += (echain % 65536).to_bytes(2, "big") + (tchain % 65536).to_bytes(2, "big") + eaddr + (seq % 2**64).to_bytes(8, "big") + bytes([cl % 256])
    out += len(payload).to_bytes(4, "big") + payload + digest + len(sigs).to_bytes(2, "big")
    for i, r, s, v in sigs:
        out += bytes([i % 256]) + r + s + (v % 65536).to_bytes(2, "big")
    return out


def wire_vbytes(wire):
    if len(wire) < 6:
        return []
    return [wire[6 + 66 * i + 65] for i in range(wire[5]) if 6 + 66 * i + 65 < len(wire)]


def go_fields(r):
    wire = bytes.fromhex(r["wire"])
    if not r["parsed"] or any(v + 27 > 255 for v in wire_vbytes(wire)):
        return -2
    sigs = []
    for s in r["sigs"]:
        d = bytes.fromhex(s["d"])
        sigs.append((s["i"], d[:32], d[32:64], d[64] + 27))
    return core.hash_bytes(fields_bytes(r["version"], r["gsidx"], r["secs"], r["nonce"], r["echain"], r["tchain"], bytes.fromhex(r["eaddr"]),
                                        int(r["seq"]), r["cl"], bytes.fromhex(r["payload"]), bytes.fromhex(r["digest"]), sigs))


def interp_fields(sol_interp, sol_src, r):
    wire = bytes.fromhex(r["wire"])
    try:
        env = sol_interp.run(sol_src, wire)
    except ValueError:
        return -1
    try:
        sigs = [(s["guardianIndex"], s["r"], s["s"], s["v"]) for s in env["sigs"]]
        if any(v > 255 for _, _, _, v in sigs):
            return -1          # the interpreter adds without the uint8 check of Solidity 0.8
        off = len(wire) - len(env["hashed"])
        if env.get("hash_expr") == "keccak256(abi.encodePacked(keccak256(body)))" and len(wire) >= 6 and off == 6 + 66 * wire[5] and r["hash"]:
            digest = bytes.fromhex(r["hash"])
        else:
            digest = bytes(32)   # the second reading hashes something else than the signing body: cannot agree with the Go side
        return core.hash_bytes(fields_bytes(env["version"], env["guardianSetIndex"], env["timestamp"], env["nonce"], env["emitterChainId"],
                                            env["targetChainId"], env["emitterAddress"], env["sequence"], env["consistencyLevel"], env["payload"], digest, sigs))
    except KeyError as e:
        raise sol_interp.SolUnknown("field %s never assigned" % e)


def gcase(r, gf, itf):
    return "(B %s, %s, %s, B %s, %s, %s, %s)" % (
        core.gbytes(r["wire"]), core.glist("B " + core.gbytes(k) for k in r["keys"]),
        core.glist("(B %s, B %s)" % (core.gbytes(e["k"]), core.gbytes(e["a"])) for e in r["rec"]),
        core.gbytes(r["hash"] or ""), core.gbool(r["accept"]), core.gz(gf), core.gz(itf))


def run(ctx, prop):
    """prop: "C04" (parse / hash half named in the messages) or "C07" (acceptance half)"""
    old = dict(ctx.cov.get("extractors", {}))
    core.run_extract(ctx, NAMES)
    old.update(ctx.cov.get("extractors", {}))
    ctx.cov["extractors"] = old
    ok, out = core.coq_make(["model/SolVerifyRun.vo"])
    if not ok:
        m = re.search(r'File "([^"]+)", line (\d+)[^\n]*\n(Error:.*?)(?:\n\n|\nmake)', out, re.S)
        ctx.problem("theorem", "build of model/SolVerifyRun.vo (translated Messages.sol)", ("%s:%s %s" % (m.group(1), m.group(2), m.group(3)[:400])) if m else out[-800:])
        return
    rc, out, trace = core.harness_pkg(ctx, "vaa", "^TestVerifSolSrc$")
    rows = [r for r in core.read_jsonl(trace) if r.get("k") == "solsrc"]
    if rc != 0 or not rows:
        ctx.problem("correspondence", "go harness TestVerifSolSrc", out[-1500:])
        return
    for r in rows:
        for m in r.get("mon", []):
            ctx.problem("monitor", m, "kind %s" % r["kind"], concrete=True, replay={"wire": r["wire"], "keys": r["keys"]}, key=prop + ":solsrc:node-panic")
            break
    import sol_interp
    try:
        sol_src = open(os.path.join(core.REPO, "ethereum/contracts/Messages.sol")).read()
    except OSError as e:
        ctx.problem("extractor", "Messages.sol", repr(e))
        return
    gfs, itfs, interp_on = [], [], True
    for r in rows:
        gfs.append(go_fields(r))
        if interp_on:
            try:
                itfs.append(interp_fields(sol_interp, sol_src, r))
            except sol_interp.SolUnknown as e:
                interp_on = False
                ctx.say("solidity interpreter (second reading) gave up: %s" % e)
        if not interp_on:
            itfs = [-2] * (len(gfs))
    idx = {id(r): i for i, r in enumerate(rows)}
    bad = core.run_cases(ctx, "cases_%s_solsrc" % prop, rows, HDR, CASE_T, lambda r: gcase(r, gfs[idx[id(r)]], itfs[idx[id(r)]]), OKDEF,
                         weight=lambda r: len(r["wire"]) // 2 + 60 * len(r["rec"]) + 300)
    kinds = {}
    for r in rows:
        kinds[r["kind"].split("=")[0]] = kinds.get(r["kind"].split("=")[0], 0) + 1
    ctx.cov["solsrc_rows_by_kind"] = kinds
    ctx.cov["solsrc_rows"] = len(rows)
    ctx.cov["solsrc_rows_the_node_accepts"] = sum(1 for r in rows if r["accept"])
    ctx.cov["solsrc_rows_with_fields_compared"] = sum(1 for g in gfs if g != -2)
    ctx.cov["solsrc_rows_compared_with_sol_interp"] = sum(1 for g in itfs if g != -2)
    if bad is None:
        return
    ctx.cov["solsrc_mismatches"] = len(bad)
    seen = set()
    for i in bad[:6]:      # one small evaluation per reported row; the classes (decision / fields / two-readings) show within the first few
        r = rows[i]
        # what the translated contract does with this input (one small evaluation per reported class)
        okd, o = core.coq_eval(ctx, "cases_%s_solsrc_diag" % prop, HDR + "Definition c : %s := %s.\nDefinition D := Eval vm_compute in let '(w, keys, tbl, h, acc, gf, itf) := c in "
                               "let E := row_env keys tbl h in (outcome E w, parsed_hash hash_bytes E w).\nPrint D.\n" % (CASE_T, gcase(r, gfs[i], itfs[i])))
        d = core.parse_print(o, "D") if okd else None
        nums = [int(x) for x in re.findall(r'-?\d+', d or "")]
        if len(nums) != 2:
            ctx.problem("correspondence", "translated Messages.sol: diagnosis of row %d failed" % i, (o or "")[-400:])
            continue
        outc, ph = nums
        verdict = {0: "reverts", 1: "returns valid = false", 2: "returns valid = true"}[outc]
        msgs = []
        if (outc == 2) != r["accept"]:
            msgs.append(("decision", "Messages.sol parseAndVerifyVM (translated from the tree) %s for a VAA the node %s (%s, %d guardian keys, %d signature records)"
                         % (verdict, "accepts" if r["accept"] else "rejects", r["kind"], len(r["keys"]), len(wire_vbytes(bytes.fromhex(r["wire"]))))))
        if gfs[i] != -2 and ph != gfs[i]:
            msgs.append(("fields", "Messages.sol parseVM (translated from the tree) %s the node's Unmarshal / SigningMsg return for the same bytes (%s)"
                         % ("reverts on bytes the node parses; values" if ph == -1 else "returns other field values / signature records / hash than", r["kind"])))
        if itfs[i] != -2 and ph != itfs[i]:
            msgs.append(("two-readings", "the translated parseVM and checks/sol_interp.py read Messages.sol differently on the same bytes (%s): translator %s, interpreter %s"
                         % (r["kind"], "reverts" if ph == -1 else "parses", "reverts" if itfs[i] == -1 else "parses")))
        for cls, msg in msgs:
            if cls in seen:
                continue
            seen.add(cls)
            ctx.problem("monitor" if cls != "two-readings" else "correspondence", msg,
                        "row %d of TestVerifSolSrc; translated contract: %s" % (i, verdict), concrete=(cls != "two-readings"),
                        replay={"kind": r["kind"], "wire": r["wire"], "guardian_keys": r["keys"], "node_parses": r["parsed"], "node_accepts": r["accept"],
                                "translated_contract": verdict, "node_fields": {k: r.get(k) for k in ("version", "gsidx", "secs", "nonce", "echain", "tchain", "eaddr", "seq", "cl", "payload", "digest")}},
                        key="%s:solsrc:%s" % (prop, cls))
        if len(seen) == 3:
            break
