"""C20 — spy subscribers receive exactly the VAAs matching their filters, independently of each other."""
import json, re
import core

HDR = ("From Coq Require Import Uint63.\nFrom Coq Require Import List ZArith Bool Arith Strings.Byte.\n"
       "From WH Require Import lib.Bytes lib.Wire gen.Extracted model.Vaa model.Spy.\n"
       "Import ListNotations.\nOpen Scope Z_scope.\n"
       "Inductive sop := SSub (k : Z) (rs : list (Z * option bytes)) | SUnsub (k : Z) | SDisc (k : Z) | SStall (k : Z) | SPub (b : bytes) (order : list Z).\n"
       "(* expected: result (0 done / registered / removed / Publish returned nil, 1 rejected / Publish returned an error, 2 blocked),\n"
       "   hashes of what the subscriber's client had been handed (unsub, disc), pending Publish after a disconnect (0 none, 1 returned, 2 still blocked) *)\n"
       "Definition exp := (Z * list Z * Z)%type.\n")

OKDEF = r"""
Definition stp := step spy_chan_cap spy_send_select_done spy_addr_len.
Definition stl := settle spy_chan_cap spy_send_select_done spy_addr_len 100000.
Fixpoint zl_eqb (a b : list Z) : bool :=
  match a, b with [] , [] => true | x :: a', y :: b' => (x =? y) && zl_eqb a' b' | _, _ => false end.
Definition got_of (s : st) (k : Z) : list Z := match lookup k (subs s) with Some x => map hash_bytes (s_got x) | None => [-1] end.
Definition last_err (s : st) : bool := last (results s) false.
Fixpoint runops (s : st) (ops : list (sop * exp)) : option st :=
  match ops with
  | [] => Some s
  | (o, (ec, eg, ep)) :: t =>
    match o with
    | SSub k rs =>
      match stp s (ESubscribe k rs) with
      | Some s' => if ec =? (match parse_filters spy_addr_len rs with None => 1 | Some _ => 0 end) then runops (stl s') t else None
      | None => if ec =? 2 then runops s t else None
      end
    | SStall k => match stp s (EStall k) with Some s' => runops (stl s') t | None => None end
    | SUnsub k | SDisc k =>
      if negb (zl_eqb (got_of s k) eg) then None else
      match stp s (EDisconnect k) with
      | None => None
      | Some s1 =>
        let s2 := stl s1 in
        let removed := match lookup k (subs s2) with None => 0 | Some _ => 2 end in
        let pend := match pub s, pub s2 with None, _ => 0 | Some _, None => 1 | Some _, Some _ => 2 end in
        if (ec =? removed) && (ep =? pend) then runops s2 t else None
      end
    | SPub b order =>
      match stp s (EPubStart b order) with
      | None => if ec =? 2 then runops s t else None
      | Some s1 =>
        let s2 := stl s1 in
        let code := match pub s2 with Some _ => 2 | None => if last_err s2 then 1 else 0 end in
        if ec =? code then runops s2 t else None
      end
    end
  end.
Definition ok (c : list (sop * exp) * list (Z * list Z)) : bool :=
  let '(ops, fin) := c in
  match runops init ops with
  | None => false
  | Some s => forallb (fun kf => zl_eqb (got_of s (fst kf)) (snd kf)) fin
  end.
"""

RES = {"registered": 0, "removed": 0, "ok": 0, "rejected": 1, "err": 1, "blocked": 2, "": 0}


def zl(xs):
    return core.glist(core.gz(x) for x in xs)


def scenario_case(r):
    """ops of one scenario as Gallina; the iteration order of an undecodable publish is reconstructed from who was handed it"""
    hashes = {}
    present = []          # ids registered and not removed, in registration order
    stalled = set()
    nofilt = {}
    got_sets = {}         # k -> set of ordinals its client was handed (as far as the harness recorded)
    for o in r["ops"]:
        if o["op"] in ("unsub", "disc"):
            got_sets[o["k"]] = set(o.get("got") or [])
    for k, g in r["final"].items():
        got_sets[int(k)] = set(g)
    ops = []
    for o in r["ops"]:
        kind = o["op"]
        code = RES[o.get("res", "")]
        if kind == "sub":
            rs = core.glist("(%s, %s)" % (core.gz(q["c"]), ("Some (B %s)" % core.gbytes(q["a"].lower())) if q["kind"] in ("ok", "short", "long") else "None")
                            for q in (o.get("reqs") or []))
            ops.append("(SSub %d %s, (%d, [], 0))" % (o["k"], rs, code))
            if o["res"] == "registered":
                present.append(o["k"])
                nofilt[o["k"]] = not o.get("reqs")
        elif kind == "stall":
            ops.append("(SStall %d, (0, [], 0))" % o["k"])
            stalled.add(o["k"])
        elif kind in ("unsub", "disc"):
            pend = {"": 0, "done": 1, "blocked": 2}[o.get("pending", "")]
            ops.append("(%s %d, (%d, %s, %d))" % ("SUnsub" if kind == "unsub" else "SDisc", o["k"], code, zl(hashes[n] for n in (o.get("got") or [])), pend))
            if o["res"] == "removed" and o["k"] in present:
                present.remove(o["k"])
        elif kind == "pub":
            hashes[o["n"]] = core.hash_bytes(o["hex"])
            order = list(present)
            if not o["dec"]:
                a = [k for k in present if nofilt[k] and o["n"] in got_sets.get(k, ())]
                b = [k for k in present if not nofilt[k]]
                c = [k for k in present if nofilt[k] and o["n"] not in got_sets.get(k, ())]
                order = a + b + c
            elif o["res"] == "blocked":
                # the Publish got stuck on a subscriber that stopped reading: who was served before it shows the iteration order
                a = [k for k in present if k not in stalled and o["n"] in got_sets.get(k, ())]
                v = [k for k in present if k in stalled]
                order = a + v + [k for k in present if k not in a and k not in v]
            ops.append("(SPub (B %s) %s, (%d, [], 0))" % (core.gbytes(o["hex"]), zl(order), code))
    fin = core.glist("(%d, %s)" % (int(k), zl(hashes[n] for n in g)) for k, g in sorted(r["final"].items(), key=lambda kv: int(kv[0])))
    return "(%s, %s)" % (core.glist(ops), fin)


def classify(m):
    stalled = m.startswith("[stalled-connected] ")
    if stalled:
        return "isolation:stalled-subscriber"
    if m.startswith(("REMOVAL BLOCKED", "PUBLISH STILL BLOCKED", "PUBLISH BLOCKED", "REGISTRATION BLOCKED", "registration of subscriber")):
        return "isolation:gone-subscriber" if not m.startswith(("PUBLISH BLOCKED", "REGISTRATION BLOCKED")) else "isolation:blocked-without-stalled-subscriber"
    if m.startswith("MISSING"):
        return "matching:missing"
    if m.startswith("EXTRA"):
        return "matching:extra"
    return "mon:" + re.sub(r'\d+', 'N', m)[:60]


def monitor(ctx, rows):
    seen = {}
    for r in rows:
        first_gone = None
        for m in r.get("mon") or []:
            k = classify(m)
            # after a deadlock caused by a disconnected subscriber everything else in that scenario blocks as well
            if first_gone and k in ("matching:missing", "isolation:blocked-without-stalled-subscriber"):
                k = first_gone
            if k == "isolation:gone-subscriber":
                first_gone = k
            if k in seen:
                seen[k]["count"] += 1
                continue
            seen[k] = {"count": 1}
            ops = [{kk: vv for kk, vv in o.items() if kk != "hex"} for o in r["ops"]]
            ctx.problem("monitor", m, "observed on the implementation (%s scenario %s%s)" % (r["k"], r["sc"], (" " + r["kind"] + " at point %d" % r["at"]) if r["k"] == "iso" else ""),
                        concrete=True, replay={"scenario": {"k": r["k"], "sc": r["sc"], "kind": r.get("kind"), "at": r.get("at"), "ops": ops, "final": r["final"]},
                                               "all_monitor_messages_of_the_scenario": r["mon"],
                                               "bytes_of_publish_n": {o["n"]: o["hex"] for o in r["ops"] if o["op"] == "pub"}}, key=k)
    return {k: v["count"] for k, v in seen.items()}


def run(ctx):
    st = core.run_extract(ctx, ["spy", "vaa_consts"])
    core.coq_prove(ctx, "C20")
    if ctx.tier == "thorough":
        core.coq_thorough_audit(ctx, "C20")
    core.coq_make(["model/Spy.vo"])
    rows = []
    rc, out, trace = core.harness_pkg(ctx, "spy", "^TestVerifC20Match$", race=(ctx.tier == "thorough"), timeout=1500)
    mrows = [r for r in core.read_jsonl(trace) if r.get("k") == "match"]
    if rc != 0 or not mrows:
        ctx.problem("correspondence", "go harness C20 (matching)", out[-1500:])
    rc, out, trace = core.harness_pkg(ctx, "spy", "^TestVerifC20Isolation$", race=(ctx.tier == "thorough"), timeout=1500)
    irows = sorted([r for r in core.read_jsonl(trace) if r.get("k") == "iso"], key=lambda r: r["sc"])
    if rc != 0 or not irows:
        ctx.problem("correspondence", "go harness C20 (isolation)", out[-1500:])
    # bursts: many-signature VAAs published back to back to reading (slow and fast) subscribers; monitors only
    rc, out, trace = core.harness_pkg(ctx, "spy", "^TestVerifC20Burst$", race=(ctx.tier == "thorough"), timeout=1500)
    brows = [r for r in core.read_jsonl(trace) if r.get("k") == "burst"]
    if rc != 0 or not brows:
        ctx.problem("correspondence", "go harness C20 (bursts)", out[-1500:])
    for r in brows:
        if r.get("mon"):
            ctx.problem("monitor", r["mon"][0], "observed on the implementation (burst round %d, %d VAAs to %d reading subscribers)" % (r["sc"], r["published"], r["subscribers"]),
                        concrete=True, replay={"burst": r}, key="burst:" + ("blocked" if "did not return" in r["mon"][0] else "delivery"))
            break
    ctx.cov["burst_rounds"] = len(brows)
    ctx.cov["burst_publishes"] = sum(r.get("published", 0) for r in brows)
    rows = mrows + irows
    if not rows:
        return
    oph, quirks = {}, {}
    distinct = set()
    for r in rows:
        for o in r["ops"]:
            k = o["op"] + ":" + o.get("res", "")
            oph[k] = oph.get(k, 0) + 1
            ctx.evaluations += 1
            distinct.add((o["op"], o.get("hex", ""), json.dumps(o.get("reqs") or []), o.get("k", 0), r["sc"], r["k"]))
        for q, v in (r.get("quirks") or {}).items():
            quirks[q] = quirks.get(q, 0) + v
    ctx.cov["ops_results"] = dict(sorted(oph.items()))
    ctx.cov["recorded_quirks"] = quirks
    ctx.cov["matching_scenarios"] = len(mrows)
    ctx.cov["isolation_scenarios"] = {"%s@%d" % (r["kind"], r["at"]): [o["res"] for o in r["ops"] if o["op"] in ("pub", "sub", "unsub", "disc")] for r in irows}
    ctx.cov["monitor_classes"] = monitor(ctx, rows)
    bad = core.run_cases(ctx, "cases_C20", rows, HDR, "list (sop * exp) * list (Z * list Z)", scenario_case, OKDEF,
                         weight=lambda r: sum(40 + len(o.get("hex", "")) // 2 for o in r["ops"]))
    if bad is not None:
        for i in bad[:3]:
            r = rows[i]
            ctx.problem("correspondence", "model (Spy.v, deterministic scheduler) differs from spyServer", "%s scenario %s %s" % (r["k"], r["sc"], r.get("kind", "")),
                        concrete=False, replay={"scenario": r})
        ctx.cov["scenarios_validated_against_model"] = len(rows)
        ctx.cov["mismatches"] = len(bad)
    ctx.distinct = len(distinct)
    ctx.rule = ("matching scenarios: up to 6 concurrent subscriptions with 0..4 filters over 3 chains x 4 emitter addresses (two differing in one bit), malformed filters "
                "(short, long, not hex, unset oneof), repeated filters, chain ids outside uint16, upper-case hex; streams of VAAs from those and foreign emitters, "
                "undecodable and truncated byte strings; subscriptions come and go between publishes. isolation scenarios: a subscriber stops reading, disconnects, or "
                "stops reading and disconnects after a Publish ran into its full channel, at several points of the stream; then publishes, a new registration and the "
                "removal of another subscriber must complete within 5 s. distinct = distinct ops; all are non-trivial")
    ctx.samples = [{"scenario": r["k"], "ops": [(o["op"], o.get("k", o.get("n")), o.get("res")) for o in r["ops"]][:12]} for r in (mrows[:1] + irows[:1])]
    ctx.assumptions = [
        "gRPC is replaced by fake server streams: Send records the message, blocks while the client does not read, and fails once the stream context is cancelled (what grpc's ServerStream does)",
        "the interleaving model's atomic steps are channel operations and critical sections of subsMu; Go scheduling below that is not modelled (thorough tier runs the harness under -race)",
        "liveness is proved as inevitability over the model's internal events (every maximal run completes, bounded by a measure); on the real code it is observed with a 5 s deadline",
        "the iteration order of Go's map is a parameter of the model (every theorem is for every order); in the differential run it is reconstructed from the observation for undecodable publishes",
    ]
