"""C05 — wire encoding round-trips exactly; decoder total."""
import core
from vaa_common import HDR, monitor_rows
from c04 import hist

def run(ctx):
    core.run_extract(ctx, ["vaa_consts", "vaa_codec"])
    core.coq_prove(ctx, "C05")
    if ctx.tier == "thorough":
        core.coq_thorough_audit(ctx, "C05")
    rc, out, trace = core.harness_pkg(ctx, "vaa", "^TestVerifC05$")
    rows = core.read_jsonl(trace)
    if rc != 0 or not rows:
        ctx.problem("correspondence", "go harness C05", out[-1500:])
        return
    # the codec from several goroutines at once (processor, gRPC requests, p2p): every result against a single-goroutine reference
    rcc, outc, tracec = core.harness_pkg(ctx, "vaa", "^TestVerifC05Conc$", race=(ctx.tier == "thorough"))
    crows = [r for r in core.read_jsonl(tracec) if r.get("k") == "c05conc"]
    if rcc != 0 or not crows:
        ctx.problem("correspondence", "go harness C05 (concurrent callers)", outc[-1500:])
    for r in crows:
        ctx.cov["concurrent_codec_cycles"] = r.get("cycles")
        for m in r.get("mon", [])[:2]:
            ctx.problem("monitor", m, "observed on the implementation (%d goroutines, %d VAAs)" % (r.get("workers", 0), r.get("vaas", 0)), concrete=True,
                        replay={"concurrent_callers": r.get("workers"), "cycles": r.get("cycles"), "monitor": m}, key="conc:" + " ".join(m.split(" ")[4:7]))
    dec = [r for r in rows if r["k"] == "dec"]
    ctx.evaluations = len(rows)
    ctx.distinct = len({r["in"] for r in dec if r["code"] != 1})
    ctx.rule = ("round trips of generated VAAs (payload lengths 1..4096 incl. 999/1000/1001, 0..255 signatures), structured mutations of valid encodings "
                "(truncation at every field boundary +-1, version, signature count +-, trailing bytes, bit flip) and arbitrary strings; "
                "distinct by input, non-trivial = not rejected by the bare length floor")
    ctx.cov["kind_hist"] = {}
    for r in dec:
        ctx.cov["kind_hist"][r["kind"]] = ctx.cov["kind_hist"].get(r["kind"], 0) + 1
    ctx.cov["result_code_hist"] = {}
    for r in dec:
        ctx.cov["result_code_hist"][str(r["code"])] = ctx.cov["result_code_hist"].get(str(r["code"]), 0) + 1
    ctx.cov["input_len_hist"] = hist([len(r["in"]) // 2 for r in dec], [56, 59, 200, 1100, 5000])
    ctx.samples = [{"kind": r["kind"], "in": r["in"][:120] + ("..." if len(r["in"]) > 120 else ""), "code": r["code"]} for r in dec[:3]]

    def key(r, m):
        if "panicked" in m:
            return "panic"
        if "decode(encode(v))" in m or "digest changed" in m:
            return "roundtrip:payload>cap" if r.get("plen", 0) > 1000 else "roundtrip"
        if "re-encode" in m:
            return "reencode:long-input" if len(r["in"]) // 2 > 1059 else "reencode"
        return "mon:" + m
    monitor_rows(ctx, rows, key, lambda r, m: {"input_hex": r["in"], "monitor": m, "kind": r.get("kind", r["k"])})
    # model vs implementation on every decoder case (inputs above 8 KiB are left to the Go-side monitors)
    dec_small = [r for r in dec if len(r["in"]) // 2 <= 8192]
    okdef = ("Definition code (e : uerr) : Z := match e with ETooShort => 1 | EBadVersion => 2 | EGsIndex => 3 | ESigLen => 4 | ESigIndex => 5 | ESig => 6\n"
             " | ETimestamp => 7 | ENonce => 8 | EEChain => 9 | ETChain => 10 | EEAddr => 11 | ESeq => 12 | ECL => 13 | EPayload => 14 end.\n"
             "Definition ok (c : bytes * Z * Z) : bool := let '(i, k, re) := c in\n"
             "  match unmarshal i with Ok v => (k =? 0) && (hash_bytes (marshal v) =? re) | Err e => k =? code e end.")
    bad = core.run_cases(ctx, "cases_C05", dec_small, HDR, "bytes * Z * Z",
                         lambda r: "(B %s, %d, %d)" % (core.gbytes(r["in"]), r["code"], core.hash_bytes(r.get("re", ""))),
                         okdef, weight=lambda r: len(r["in"]) // 2)
    if bad is None:
        return
    for i in bad[:3]:
        r = dec_small[i]
        ctx.problem("correspondence", "model unmarshal differs from vaa.Unmarshal", "kind=%s code=%s len=%d" % (r["kind"], r["code"], len(r["in"]) // 2),
                    concrete=False, replay={"input_hex": r["in"], "go_code": r["code"]})
    ctx.cov["traces_validated_against_impl"] = len(dec_small)
    ctx.cov["mismatches"] = len(bad)
    ctx.assumptions = ["memory safety / over-read of the Go decoder is observed by the harness (recover(), input unchanged), not proved",
                       "time.Time equality for whole-second timestamps is compared with Time.Equal"]
