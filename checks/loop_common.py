"""Extension X7, shared by C14 and C17: the re-observation loop end to end.
Stage 1 (harness/processor TestVerifLoopStream): the real handleCleanup on the virtual clock for messages that stay pending;
every request it posts is recorded.  Stage 2 (harness/guardiand_loop TestVerifReobsLoop): exactly that stream is fed to the real
dispatcher under the driven clock.  Both stages are re-run by the COMPOSED model (coq/model/ReobsLoop.v) inside Coq, and the loop
statements (cadence, no amplification, budget) are evaluated directly on the observed times."""
import os, json
import core
import proc_common as P

HDR = ("From Coq Require Import Uint63.\nFrom Coq Require Import List ZArith Bool Arith Strings.Byte.\n"
       "From WH Require Import lib.Bytes lib.Wire gen.Extracted model.Vaa model.Processor model.ReobsLoop lib.ProcWire lib.LoopWire.\n"
       "Import ListNotations.\nOpen Scope Z_scope.\n")

# the numbers of the statement (seconds): retry period, its upper bound with the 30 s ticker, window, purge period, B = 11 + 7 + 5 + 0.5 min
RETRY, WINDOW, PERIOD, TICK = 300, 660, 420, 30
BOUND = WINDOW + PERIOD + RETRY + TICK
BUDGET = 14400


def B(h):
    return "(B %s)" % core.gbytes(h or "")


def glop(o):
    """a processor-harness op as a step of the composition"""
    k = o["k"]
    t = P.gop(o)
    if k == "setgs":
        return "LEnv (VSetGS %s)" % t[len("SetGS "):]
    if k == "msg":
        return "LEnv (VMsg %s)" % t[len("LocalMsg "):]
    if k == "loop":
        return "LEnv (VLoop %d)" % o.get("n", 0)
    if k == "obs":
        return "LGossip (B %s) (G.MObservation %s)" % (core.gbytes("02"), t[len("Obs "):])
    if k == "clock":
        return "LClock (%d * 1000000000)" % o.get("t", 0)
    if k == "cleanup":
        return "LCleanup"
    raise ValueError(k)


def compose(h, r2):
    """merge the processor history of stage 1 and the dispatcher events of stage 2 into ONE history of the composed model.
    Returns (list of lop texts, expected posts, expected dispatcher steps)."""
    evs = r2["events"]
    ops = []
    ei = 0
    now = 0

    def flush_until(t):
        """stage-2 events strictly before virtual second t (ticks and peer requests between two clock readings of stage 1)"""
        nonlocal ei, now
        while ei < len(evs) and evs[ei]["t"] < t:
            e = evs[ei]
            if e["t"] != now:
                now = e["t"]
                ops.append("LClock (%d * 1000000000)" % now)
            emit(e)
            ei += 1

    def emit(e):
        if e["k"] == "tick":
            ops.append("LPurge")
        elif e["k"] == "drain":
            ops.append("LWatch %d" % e["chain"])
        elif e["src"] == "peer":
            ops.append("LAdmin {| R.r_chain := %d; R.r_tx := %s |}" % (e["chain"], B(e["tx"])))
            ops.append("LPump")
        else:
            ops.append("LPump")

    for o in h["ops"]:
        if o["k"] == "clock":
            flush_until(o.get("t", 0))
            now = o.get("t", 0)
            ops.append(glop(o))
            while ei < len(evs) and evs[ei]["t"] == now and evs[ei]["k"] == "tick":
                emit(evs[ei]); ei += 1
                while ei < len(evs) and evs[ei]["t"] == now and evs[ei]["k"] == "drain":
                    emit(evs[ei]); ei += 1
        elif o["k"] == "cleanup":
            ops.append("LCleanup")
            while ei < len(evs) and evs[ei]["t"] == now and (evs[ei]["k"] == "drain" or (evs[ei]["k"] == "req" and evs[ei]["src"] == "stream")):
                emit(evs[ei]); ei += 1
            while ei < len(evs) and evs[ei]["t"] == now and evs[ei]["k"] != "tick":
                emit(evs[ei]); ei += 1
        else:
            ops.append(glop(o))
    flush_until(10 ** 12)
    posts = [(q["t"], q["chain"], q["tx"]) for q in h["stream"]]
    # the peer's requests go through the same queue in the model (LAdmin): they are posts too
    allposts = sorted(posts + [(e["t"], e["chain"], e["tx"]) for e in evs if e["k"] == "req" and e.get("src") == "peer"], key=lambda x: x[0])
    disp = []
    for e in evs:
        if e["k"] == "tick":
            disp.append((e["t"], 10))
        elif e["k"] == "drain":
            disp.append((e["t"], 111 if e["out"] == 1 else 110))
        else:
            disp.append((e["t"], e["out"]))
    return ops, allposts, disp


def gcase(h, r2):
    ops, posts, disp = compose(h, r2)
    kc = core.glist("(%s, %s)" % (B(a), B(b)) for a, b in h["keccak"])
    sg = core.glist("(%s, %s)" % (B(a), B(b)) for a, b in h["sign"])
    rc = core.glist("(%s, %s, %s)" % (B(a), B(b), "Some %s" % B(c) if c else "None") for a, b, c in h["rec"])
    std = r2["cap"] == r2.get("bufsize")
    chain = r2["events"][0]["chain"] if r2["events"] else 0
    for e in r2["events"]:
        if e["k"] == "req":
            chain = e["chain"]
            break
    fill = core.glist("(%d, %s)" % (chain, B(("pre/%d" % i).encode().hex())) for i in range(r2["fill"]))
    return ("{| lc_own := %s; lc_gc := %d; lc_ga := %s; lc_keccak := %s; lc_sign := %s; lc_rec := %s; lc_cap := %s; lc_fill := %s; lc_chain := %d; "
            "lc_ops := %s; lc_posts := %s; lc_disp := %s |}"
            % (B(h["own"]), h["gov_chain"], B(h["gov_addr"]), kc, sg, rc, "None" if std else "Some %d%%nat" % r2["cap"], fill, chain,
               core.glist(ops), core.glist("(%d, %d, %s)" % (t, c, B(tx)) for t, c, tx in posts), core.glist("(%d, %d)" % x for x in disp)))


def pending_interval(h, i):
    """virtual seconds during which message i of a stage-1 row was pending and due for retries: from five minutes after it was signed
    (virtual second 0) to the arrival of the quorum / the drop of its entry / the end of the run"""
    end = h["horizon"]
    if h["dropped"][i] >= 0:
        end = min(end, h["dropped"][i])
    qt = [o.get("t", 0) for k, o in enumerate(h["ops"]) if o["k"] == "obs"]
    if qt:
        # the clock op before the first peer observation carries the arrival time
        j = next(k for k, o in enumerate(h["ops"]) if o["k"] == "obs")
        end = min(end, max([o.get("t", 0) for o in h["ops"][:j] if o["k"] == "clock"] or [0]))
    return RETRY, end


def monitors(ctx, pid, s1, s2):
    """the loop statements evaluated directly on the observed times (independent of the model)"""
    found = {}

    def flag(key, msg, detail, replay):
        if key in found:
            return
        found[key] = 1
        ctx.problem("monitor", msg, detail, concrete=True, replay=replay, key="loop:" + key)

    by = {h["scenario"]: h for h in s1}
    stream_ok = {}
    # (b) processor side and (e): recorded by stage 1 itself (registered under C14: the statements are about the cleanup tick)
    for h in s1:
        stream_ok[h["scenario"]] = not (h.get("lmon") or [])
        for i, l in enumerate(h["retries"]):
            lo, hi = pending_interval(h, i)
            ts = [lo - TICK] + l
            if any(b - a > RETRY + TICK + 17 for a, b in zip(ts, ts[1:])) or (ts[-1] + RETRY + TICK <= hi and not (h["budget"] and i == 0)):
                stream_ok[h["scenario"]] = False
        if pid != "C14":
            continue
        for line in h.get("lmon") or []:
            flag("stage1:" + line.split(":")[0] + ":" + " ".join(line.split()[1:7]), line, "observed on the real handleCleanup, scenario %s" % h["scenario"],
                 {"scenario": h["scenario"], "retries": h["retries"], "stream": h["stream"][:40], "ops": h["ops"][:12]})
        for i, l in enumerate(h["retries"]):
            lo, hi = pending_interval(h, i)
            ts = [lo - TICK] + l
            for a, b in zip(ts, ts[1:] + [None]):
                nxt = b if b is not None else None
                if nxt is None:
                    if a + RETRY + TICK <= hi and not (h["budget"] and i == 0):
                        flag("retry-missing", "loop(a): a pending message was last retried at %d s and not again although it stayed pending until %d s (5 min 30 s at most expected)" % (a, hi),
                             "real handleCleanup, scenario %s" % h["scenario"], {"scenario": h["scenario"], "retries": l, "pending_until": hi})
                elif nxt - a > RETRY + TICK + 17 and a >= lo:        # one scenario delivers one tick 17 s late
                    flag("retry-late", "loop(a): consecutive retries of a pending message at %d s and %d s: more than 5 min 30 s apart (ticks every 30 s)" % (a, nxt),
                         "real handleCleanup, scenario %s" % h["scenario"], {"scenario": h["scenario"], "retries": l})
    # (a) cadence and (b) dispatcher side: on the forwards observed in stage 2 (registered under C17; the cadence only when the
    # request stream of stage 1 kept its own contract - otherwise the defect is the processor's and C14 reports it)
    gaps = []
    for r in s2:
        h = by.get(r["scenario"])
        if h is None or r.get("aborted") or pid != "C17":
            continue
        key = None
        fw = []
        for e in r["events"]:
            if e["k"] == "req":
                key = (e["chain"] % 65536, e["tx"])
                if e["out"] == 0:
                    fw.append(e["t"])
        rep = {"scenario": r["scenario"], "variant": r["variant"], "dispatcher_started_at": r["start"], "purge_period_s": r["period"], "queue_capacity": r["cap"],
               "requests": [(e["t"], e.get("src"), e["out"]) for e in r["events"] if e["k"] == "req"], "purge_ticks": [e["t"] for e in r["events"] if e["k"] == "tick"]}
        lastf = None
        for e in r["events"]:
            if e["k"] != "req":
                continue
            if e["out"] == 0:
                lastf = e["t"]
            elif e["out"] == 1 and (lastf is None or e["t"] - lastf > WINDOW + PERIOD):
                flag("dup-without-forward", "loop(b): the request at %d s was skipped as a duplicate although the watcher received no request for that transaction in the 18 minutes before (%s)"
                     % (e["t"], "last forward at %d s" % lastf if lastf is not None else "none at all: an earlier request was dropped on a full queue"),
                     "real dispatcher fed with the real cleanup's requests, %s / %s" % (r["scenario"], r["variant"]), rep)
        for a, b in zip(fw, fw[1:]):
            gaps.append(b - a)
            if b - a <= WINDOW:
                flag("window", "loop(b): the watcher received re-observation requests for one transaction at %d s and %d s, not more than 11 minutes apart" % (a, b),
                     "real dispatcher fed with the real cleanup's requests, %s / %s" % (r["scenario"], r["variant"]), rep)
        lo, hi = pending_interval(h, 0)
        if not stream_ok.get(r["scenario"]):
            continue
        if r["drain_at"] > 0:
            lo = max(lo, r["drain_at"])           # the cadence premise "the watcher queue has room" holds from here on
        pts = [lo] + [f for f in fw if f >= lo]
        for a, b in zip(pts, pts[1:] + [None]):
            if (b is None and a + BOUND <= hi) or (b is not None and b - a > BOUND):
                flag("cadence", "loop(a): message pending from %d s to %d s, but after %d s the watcher received no re-observation request for its transaction %s (at least one every %d s = 23 min 30 s expected)"
                     % (RETRY, hi, a, "until %d s" % b if b is not None else "any more", BOUND),
                     "real dispatcher fed with the real cleanup's requests, %s / %s" % (r["scenario"], r["variant"]), rep)
                break
    ctx.cov["loop_forward_gaps_s"] = sorted(set(gaps))
    return len(found)


def run(ctx, pid):
    """called by checks/c14.py and checks/c17.py after their own pipeline"""
    prev = dict(ctx.cov.get("extractors") or {})
    core.run_extract(ctx, ["processor_consts", "reobserve", "wiring", "p2p_loop"])
    prev.update(ctx.cov.get("extractors") or {})
    ctx.cov["extractors"] = prev
    ok, out = core.coq_make(["lib/LoopWire.vo"])
    if not ok:
        ctx.problem("machinery", "build of lib/LoopWire.vo", out[-800:])
        return
    os.makedirs(os.path.join(core.BUILD, "tmp"), exist_ok=True)
    stream = os.path.join(core.BUILD, "tmp", "loop_stream_%s_%d.json" % (pid, os.getpid()))
    rc, out, trace = core.harness_pkg(ctx, "processor", "^TestVerifLoopStream$", timeout=1800, env={"VERIF_LOOP_STREAM": stream})
    s1 = [P.norm(r) for r in core.read_jsonl(trace) if r.get("k") == "loop"]
    if rc != 0 or not s1 or not os.path.exists(stream):
        ctx.problem("machinery", "go harness re-observation loop, stage 1 (processor)", out[-1500:])
        return
    rc, out, trace = core.harness_pkg(ctx, "guardiand_loop", "^TestVerifReobsLoop$", timeout=1800, env={"VERIF_LOOP_STREAM": stream})
    rows2 = core.read_jsonl(trace)
    try:
        os.remove(stream)
    except OSError:
        pass
    s2 = [r for r in rows2 if r.get("k") == "loop2"]
    consts = [r for r in rows2 if r.get("k") == "consts"]
    if rc != 0 or not s2:
        ctx.problem("machinery", "go harness re-observation loop, stage 2 (dispatcher)", out[-1500:])
        return
    for r in s2:
        r["bufsize"] = consts[0]["bufsize"] if consts else None
        for line in (r.get("mon") or []) if pid == "C17" else []:
            ctx.problem("monitor", line, "real dispatcher fed with the real cleanup's requests, %s / %s" % (r["scenario"], r["variant"]), concrete=True,
                        replay={"scenario": r["scenario"], "variant": r["variant"], "events": r["events"][:60]}, key="loop:" + " ".join(line.split()[:6]))
    seen = set()
    for h in s1:
        for line in h.get("mon") or []:
            c = P.mon_class(line)
            if line.startswith("processor blocked"):
                c = pid
            if c == pid and P.mon_key(pid, line) not in seen:
                seen.add(P.mon_key(pid, line))
                ctx.problem("monitor", line, "real handlers, re-observation loop scenario %s" % h["scenario"], concrete=True, replay=P.replay_obj(h, line), key=P.mon_key(pid, line))
    nm = monitors(ctx, pid, s1, s2)
    by = {h["scenario"]: h for h in s1}
    # a scenario whose retry counter was preset by the harness has no counterpart history in the model: monitors only
    pairs = [(by[r["scenario"]], r) for r in s2 if r["scenario"] in by and not r.get("aborted") and not by[r["scenario"]]["budget"]]
    texts = [HDR + "Definition c : lcase := %s.\nDefinition M := Eval vm_compute in (let r := check_loop c in [fst r; snd r]).\nPrint M.\n" % gcase(h, r) for h, r in pairs]
    res = core.coq_eval_many(ctx, "cases_%s_loop" % pid, texts, timeout=900)
    bad = 0
    for (h, r), (ok, o) in zip(pairs, res):
        m = core.parse_print(o, "M")
        if not ok or m is None:
            ctx.problem("correspondence", "composed-model evaluation (re-observation loop)", o[-800:])
            continue
        pi, di = core.zlist(m)
        if pi != -2:
            # C14 owns the request stream of the cleanup tick, C17 the dispatcher's answers to it (given the stream as it is: a deviating
            # stream shifts the dispatcher steps of the model too, which is not the dispatcher's fault)
            if pid == "C14":
                di = -1
            else:
                di = di if pi < 0 else -1
                pi = -1
        if pi == -2:
            ctx.problem("correspondence", "a recorded Keccak256 result is not the value of the Gallina keccak256", "loop scenario %s" % h["scenario"])
        elif pi >= 0 or di >= 0:
            bad += 1
            if bad <= 3:
                ops, posts, disp = compose(h, r)
                what = []
                if pi >= 0:
                    what.append("posted request #%d: implementation %s" % (pi, posts[pi] if pi < len(posts) else "none (the model posts one more)"))
                if di >= 0:
                    what.append("dispatcher step #%d: implementation %s" % (di, disp[di] if di < len(disp) else "none (the model takes one more)"))
                ctx.problem("correspondence", "the composed model (ReobsLoop.v) differs from cleanup + dispatcher", "%s / %s: %s" % (r["scenario"], r["variant"], "; ".join(what)),
                            concrete=False, replay={"scenario": r["scenario"], "variant": r["variant"], "stream": h["stream"][:30], "dispatcher_events": r["events"][:80]})
    ctx.cov["loop"] = {"stage1_scenarios": len(s1), "cleanup_ticks": sum(1 for h in s1 for o in h["ops"] if o["k"] == "cleanup"),
                       "requests_posted": sum(len(h["stream"]) for h in s1), "stage2_runs": len(s2),
                       "dispatcher_steps": sum(len(r["events"]) for r in s2), "forwards": sum(1 for r in s2 for e in r["events"] if e["k"] == "req" and e["out"] == 0),
                       "composed_model_runs": len(pairs), "composed_model_mismatches": bad, "monitor_failures": nm,
                       "bound_s": BOUND, "watcher_queue_size_runtime": consts[0]["bufsize"] if consts else None}
    ctx.assumptions = list(ctx.assumptions) + [
        "re-observation loop (X7): the cadence bound 23 min 30 s = window + purge period + retry period + cleanup ticker period holds while the message is pending, both tickers fire on time, p2p's request goroutine keeps up and neither obsvReqSendC nor the watcher queue overflows (theorem hypotheses); the naive 'every 5 minutes' is false for the composition (witness in props/C17.v)",
        "the hand-over processor -> p2p -> dispatcher is modelled as prompt (same clock reading); stage 2 of the harness feeds the dispatcher at the recorded instants"]
