"""C06 — signature verification accepts exactly valid, ordered, in-set signatures."""
import core
from vaa_common import HDR, monitor_rows

def run(ctx):
    core.run_extract(ctx, ["vaa_consts", "vaa_verify"])
    core.coq_prove(ctx, "C06")
    if ctx.tier == "thorough":
        core.coq_thorough_audit(ctx, "C06")
    rc, out, trace = core.harness_pkg(ctx, "vaa", "^TestVerifC06$")
    rows = core.read_jsonl(trace)
    if rc != 0 or not rows:
        ctx.problem("correspondence", "go harness C06", out[-1500:])
        return
    # verification from several goroutines at once (large payloads; valid VAAs and VAAs changed after signing): monitors only
    rcc, outc, tracec = core.harness_pkg(ctx, "vaa", "^TestVerifC06Conc$", race=(ctx.tier == "thorough"))
    crows = [r for r in core.read_jsonl(tracec) if r.get("k") == "c06conc"]
    if rcc != 0 or not crows:
        ctx.problem("correspondence", "go harness C06 (concurrent callers)", outc[-1500:])
    for r in crows:
        ctx.cov["concurrent_verifications"] = r.get("calls")
        for m in r.get("mon", [])[:2]:
            ctx.problem("monitor", m, "observed on the implementation (%d goroutines)" % r.get("workers", 0), concrete=True,
                        replay={"concurrent_callers": r.get("workers"), "calls": r.get("calls"), "monitor": m}, key="conc:" + m.split(" ")[4])
    ctx.evaluations = len(rows)
    ctx.distinct = len({(tuple(r["addrs"]), tuple((s["i"], s["d"]) for s in r["sigs"])) for r in rows if r["sigs"]})
    ctx.rule = ("guardian lists of length 0..255 (distinct keys, every fifth with a repeated address), random ascending signer subsets signed with real secp256k1 keys, "
                "and each single-step corruption (body bit flip, swap, duplicate, re-index, index=len, index=255, foreign key, member at another index, "
                "recid>=4, zero signature, r=0, s>=order, signature bit flip, repeated address at both indices, more signatures than addresses); "
                "distinct by (address list, signature list), non-trivial = at least one signature")
    kh = {}
    for r in rows:
        kh[r["kind"]] = kh.get(r["kind"], 0) + 1
    ctx.cov["kind_hist"] = kh
    ctx.cov["accepted"] = sum(1 for r in rows if r["got"])
    ctx.samples = [{"kind": r["kind"], "n_addrs": len(r["addrs"]), "sig_indices": [s["i"] for s in r["sigs"]][:20], "got": r["got"]} for r in rows[:4]]
    monitor_rows(ctx, rows, lambda r, m: "mon:" + m, lambda r, m: {"kind": r["kind"], "addrs": r["addrs"], "sigs": r["sigs"], "monitor": m})
    def gc(r):
        sg = core.glist("(%d, B %s, %s)" % (s["i"], core.gbytes(s["d"]), "None" if s["rec"] is None else "Some (B %s)" % core.gbytes(s["rec"])) for s in r["sigs"])
        return "(%s, %s, %s)" % (core.glist("B " + core.gbytes(a) for a in r["addrs"]), sg, core.gbool(r["got"]))
    okdef = ("Definition tbl_recover (t : list (Z * bytes * option bytes)) (h s : bytes) : option bytes :=\n"
             "  match find (fun e => bytes_eqb (snd (fst e)) s) t with Some e => snd e | None => None end.\n"
             "Definition ok (c : list bytes * list (Z * bytes * option bytes) * bool) : bool := let '(addrs, t, got) := c in\n"
             "  let ss := map (fun e => {| s_idx := fst (fst e); s_data := snd (fst e) |}) t in\n"
             "  Bool.eqb (if (length addrs <? length ss)%nat then false else verify_loop (tbl_recover t) [] addrs (-1) [] ss) got.")
    bad = core.run_cases(ctx, "cases_C06", rows, HDR, "list bytes * list (Z * bytes * option bytes) * bool", gc, okdef,
                         weight=lambda r: 20 * len(r["addrs"]) + 90 * len(r["sigs"]))
    if bad is None:
        return
    for i in bad[:3]:
        r = rows[i]
        ctx.problem("correspondence", "model verify_sigs differs from VerifySignatures", "kind=%s got=%s" % (r["kind"], r["got"]),
                    concrete=False, replay={"kind": r["kind"], "addrs": r["addrs"], "sigs": r["sigs"]})
    ctx.cov["traces_validated_against_impl"] = len(rows)
    ctx.cov["mismatches"] = len(bad)
    ctx.assumptions = ["recover is an arbitrary function in the theorems; in the correspondence run it is the finite table of go-ethereum crypto.Ecrecover results recorded by the harness (called directly, not through the repo)",
                       "'changing any body bit makes verification fail' needs ECDSA unforgeability: exercised on real keys, not proved"]
