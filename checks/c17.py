"""C17 — re-observation requests are routed once per transaction and never block."""
import os
import core
from dbgroup_common import run_cases_retry, coq_prove_retry
from c04 import hist

HDR = ("From Coq Require Import Uint63.\nFrom Coq Require Import List ZArith Bool Arith Strings.Byte.\n"
       "From WH Require Import lib.Bytes lib.Wire gen.Extracted model.Reobserve model.ReobserveRun.\n"
       "Import ListNotations.\nOpen Scope Z_scope.\n")


def gb(hexs):
    return "(B %s)" % core.gbytes(hexs)


def gname(s):
    """"<chain>/<hex tx>" as recorded by the harness -> (chain, bytes)"""
    c, _, tx = s.partition("/")
    return "(%d, %s)" % (int(c), gb(tx))


def glens(l):
    return core.glist(str(x) for x in (l or []))


def gop(o):
    if o["k"] == "req":
        return "DReq %d %s %d %d %s" % (o["chain"], gb(o.get("tx", "")), o["t"], 8 if o.get("stall") else o["out"], glens(o.get("lens")))
    if o["k"] == "tick":
        return "DTick %d %s" % (o["t"], glens(o.get("lens")))
    return "DDrain %d %s %s" % (o["chain"], core.gopt(o.get("got") or None, gname), glens(o.get("lens")))


def gcase(r):
    if r["k"] == "post":
        return "CPost %d%%nat %s %s" % (r.get("cap", 0), glens(r["posts"]), glens(r["plens"]))
    qs = []
    for c, cap, f in zip(r["chains"], r["caps"], r["fill"]):
        pre = core.glist("(%d, %s)" % (c, gb(("pre/%d" % k).encode().hex())) for k in range(f))
        qs.append("(%d, %d%%nat, %s)" % (c, cap, pre))
    ops = r["ops"]
    if r.get("aborted") and ops and ops[-1].get("stall") and ops[-1]["k"] != "req":
        ops = ops[:-1]          # a stalled tick has no model counterpart to compare
    return "CHist %d %s %s %s %s" % (r["period"], core.glist(qs), core.glist(gop(o) for o in ops),
                                     core.glist(core.glist(gname(x) for x in q) for q in (r.get("final") or [])), core.gbool(r.get("aborted", False)))


def replay_of(r, oi=None, msg=None):
    if r["k"] in ("conc", "race", "grace"):
        return dict(r, monitor=msg)
    d = {"kind": r["k"], "history_index": r["idx"]}
    if r["k"] == "hist":
        d.update(watcher_queues=[{"chain": c, "capacity": cap, "initial_fill": f} for c, cap, f in zip(r["chains"], r["caps"], r["fill"])],
                 purge_period_s=r["period"],
                 steps=[{k: v for k, v in o.items() if k not in ("logs",)} for o in (r["ops"] if oi is None or oi < 0 else r["ops"][:oi + 1])])
    else:
        d.update(capacity=r.get("cap", 0), results=r["posts"], lengths=r["plens"], via=(r.get("other") or ["common.PostObservationRequest"])[0])
    if msg:
        d["monitor"] = msg
    return d


def mon_key(m):
    for pat, k in (("blocked", "blocked"), ("did not return within 3 s", "post-race-stalled"), ("concurrent posts", "post-race"), ("did not return", "blocked"), ("did not take", "blocked"), ("although it was already forwarded", "window"), ("forwarded twice at the same instant", "window"),
                   ("not forwarded", "not-forwarded-again"), ("names another chain", "wrong-chain"), ("does not name", "wrong-chain"),
                   ("full queue", "post-full"), ("queue with room", "post-room"), ("purge ticker", "ticker")):
        if pat in m:
            return k
    return "other"


def run(ctx):
    st = core.run_extract(ctx, ["reobserve"])
    coq_prove_retry(ctx, "C17", extra_targets=["model/ReobserveRun.vo"])
    if ctx.tier == "thorough":
        core.coq_thorough_audit(ctx, "C17")
    rc, out, trace = core.harness_pkg(ctx, "guardiand_reobs", "^TestVerifC17$", timeout=1800, race=(ctx.tier == "thorough"))
    rows = core.read_jsonl(trace)
    # schedules: concurrent producers and concurrently reading watchers (own trace file; -race in the thorough tier)
    rc2, out2, trace2 = core.harness_pkg(ctx, "guardiand_reobs", "^TestVerifC17Conc$", timeout=1800, race=(ctx.tier == "thorough"))
    conc = [r for r in core.read_jsonl(trace2) if r.get("k") == "conc"]
    if rc2 != 0 or not conc:
        ctx.problem("correspondence", "go harness C17 (concurrent schedules)", out2[-1500:])
    rc3, out3, trace3 = core.harness_pkg(ctx, "guardiand_reobs", "^TestVerifC17PostRace$", timeout=1800)
    races = [r for r in core.read_jsonl(trace3) if r.get("k") == "race"]
    if rc3 != 0 or not races:
        ctx.problem("correspondence", "go harness C17 (concurrent posts)", out3[-1500:])
    conc = conc + races
    # the other caller of PostObservationRequest: the processor's cleanup loop (node/pkg/processor/cleanup.go).  Its scripted fault
    # history "request queue full when the retry falls due" runs on the real handleCleanup; a cleanup that waits for room stalls the
    # processor's only goroutine ("posting to a full outbound request queue fails immediately instead of stalling the caller")
    rc4, out4, trace4 = core.harness_pkg(ctx, "processor", "^TestVerifProc$", timeout=1800)
    prow = core.read_jsonl(trace4)
    if rc4 != 0 or not prow:
        ctx.problem("correspondence", "go harness C17 (cleanup caller, processor harness)", out4[-1500:])
    nfull = 0
    for h in prow:
        if "request-queue-full" in (h.get("shape") or ""):
            nfull += 1
        for line in h.get("mon") or []:
            if line.startswith("processor blocked") and "cleanup" in line:
                ctx.problem("monitor", "the processor's cleanup stalled on a full outbound request queue: " + line, "history %s (%s), real handleCleanup" % (h["id"], h.get("shape")),
                            concrete=True, replay={"history": h["id"], "shape": h.get("shape"), "ops": h["ops"]}, key="post:cleanup-stalls-on-full-queue")
                break
    ctx.cov["cleanup_caller_histories_with_full_request_queue"] = nfull
    if "DATA RACE" in out or "DATA RACE" in out2:
        ctx.problem("monitor", "the race detector reports a data race in the dispatcher", (out + out2)[(out + out2).index("DATA RACE") - 50:][:1500], concrete=True,
                    replay={"race_report": (out + out2)[(out + out2).index("DATA RACE") - 50:][:3000]}, key="race")
    consts = [r for r in rows if r.get("k") == "consts"]
    grace = [r for r in rows if r.get("k") == "grace"]
    rows = [r for r in rows if r.get("k") in ("hist", "post")]
    if rc != 0 or not rows:
        ctx.problem("correspondence", "go harness C17", out[-1500:])
        return
    hists = [r for r in rows if r["k"] == "hist"]
    rows = rows + conc + grace
    ctx.cov["full_queue_grace_trials"] = [{k: v for k, v in r.items() if k != "mon"} for r in grace]
    if not grace:
        ctx.problem("correspondence", "go harness C17 (full-queue timing trials) produced no row", out[-800:])
    races = [r for r in conc if r["k"] == "race"]
    conc = [r for r in conc if r["k"] == "conc"]
    rows = rows + races
    ctx.cov["concurrent_posts"] = [{k: v for k, v in r.items() if k != "mon"} for r in races]
    ctx.cov["concurrent_runs"] = {"runs": len(conc), "epochs": sum(r["epochs"] for r in conc), "requests_sent": sum(r["sent"] for r in conc),
                                  "delivered": sum(r["delivered"] for r in conc), "epochs_with_slow_watchers": sum(r["epochs_with_slow_watchers"] for r in conc),
                                  "max_deliveries_of_one_key": max([r["max_deliveries_of_one_key"] for r in conc] or [0]), "race_detector": ctx.tier == "thorough"}
    nops = sum(len(r["ops"]) for r in hists) + sum(len(r["posts"]) for r in rows if r["k"] == "post")
    ctx.evaluations = nops
    ctx.distinct = len({(r["idx"], i) for r in hists for i, o in enumerate(r["ops"]) if o["k"] == "req"}) + sum(len(r["posts"]) for r in rows if r["k"] == "post")
    ctx.rule = ("seeded histories (20..60 steps) of requests (4 watcher chains + unknown chains + chain numbers >= 2^16 that wrap; 4 transactions incl. the empty one "
                "and a prefix of another), clock advances from {1 s .. 25 min} straddling 7 / 11 / 18 min with the purge ticker firing at every multiple of the period the "
                "handler asked for, and watchers taking requests; watcher queues of capacity 0..3 (every permutation class, random initial fill) driven through every fill level; "
                "PostObservationRequest (directly and through the admin RPC) on queues of capacity 0..3 and 50 at every fill level; distinct = (history, request step) and "
                "(capacity, fill level) pairs; non-trivial = all (every request step is answered by the real dispatcher)")
    ctx.cov["histories"] = len(hists)
    ctx.cov["steps"] = sum(len(r["ops"]) for r in hists)
    oc = {}
    for r in hists:
        for o in r["ops"]:
            k = o["k"] + (":%d" % o["out"] if o["k"] != "tick" else "")
            oc[k] = oc.get(k, 0) + 1
    ctx.cov["step_outcome_hist"] = oc   # req:0 forwarded, 1 duplicate, 2 queue full, 3 unknown chain; drain:1 got one, 0 empty
    ctx.cov["queue_capacity_hist"] = hist([c for r in hists for c in r["caps"]], [0, 1, 2, 3])
    ctx.cov["fill_level_at_request_hist"] = {}
    gaps = []
    for r in hists:
        last = {}
        lens = list(r["fill"])
        for o in r["ops"]:
            if o["k"] == "req":
                c16 = o["chain"] % 65536
                if c16 in r["chains"]:
                    qi = r["chains"].index(c16)
                    k = "%d/%d" % (lens[qi], r["caps"][qi])
                    ctx.cov["fill_level_at_request_hist"][k] = ctx.cov["fill_level_at_request_hist"].get(k, 0) + 1
                key = (c16, o.get("tx", ""))
                if key in last:
                    gaps.append(o["t"] - last[key])
                if o["out"] == 0:
                    last[key] = o["t"]
            if o.get("lens"):
                lens = o["lens"]
    ctx.cov["seconds_since_last_forward_of_same_key_hist"] = hist(gaps, [0, 419, 420, 659, 660, 661, 1079, 1080, 1500, 3000])
    ctx.cov["ticker_period_s"] = sorted({r["period"] for r in hists})
    ctx.cov["aborted_histories"] = sum(1 for r in hists if r.get("aborted"))
    ctx.cov["other_clock_uses"] = sorted({x for r in hists for x in (r.get("other") or [])})
    if consts:
        ctx.cov["ObsvReqChannelSize_runtime"] = consts[0].get("chansize")
        ex = (st.get("reobserve") or {}).get("info") or {}
        if ex and ex.get("channel_size") != consts[0].get("chansize"):
            ctx.problem("correspondence", "extracted channel size differs from the compiled constant", "%s vs %s" % (ex.get("channel_size"), consts[0].get("chansize")))
    ctx.samples = [replay_of(r) for r in (hists[:1] + [x for x in rows if x["k"] == "post"][1:2])]
    for s in ctx.samples:
        if "steps" in s:
            s["steps"] = s["steps"][:6]
    # monitors: the statement evaluated by the harness on the implementation's behaviour
    seen = {}
    nmon = 0
    for r in rows:
        for m, oi in zip(r.get("mon") or [], r.get("monop") or [None] * len(r.get("mon") or [])):
            nmon += 1
            k = mon_key(m)
            if k in seen:
                continue
            seen[k] = 1
            ctx.problem("monitor", m, "observed on the implementation (%s %d)" % (r["k"], r.get("idx", r.get("run", 0))), concrete=True, replay=replay_of(r, oi, m), key=k)
    ctx.cov["monitor_failures"] = nmon
    # model vs implementation
    rows = [r for r in rows if r["k"] in ("hist", "post")]
    bad = run_cases_retry(ctx, "cases_C17", rows, HDR, "dcase", gcase, "(* ok : dcase -> bool is WH.model.ReobserveRun.ok *)", ["model/ReobserveRun.vo"],
                          weight=lambda r: len(r.get("ops") or []) + len(r.get("posts") or []))
    if bad is None:
        return
    for i in bad[:3]:
        r = rows[i]
        text = HDR + "Definition c : dcase := %s.\nDefinition M := Eval vm_compute in bad_steps c.\nPrint M.\n" % gcase(r)
        ok, o = core.coq_eval(ctx, "cases_C17_diag_%d" % i, text)
        m = core.parse_print(o, "M")
        qs = core.zlist(m) if (ok and m is not None) else []
        oi = next((x for x in qs if x >= 0), None)
        if r["k"] == "post":
            what = "PostObservationRequest results %s lengths %s on capacity %d" % (r["posts"], r["plens"], r.get("cap", 0))
        elif oi is not None:
            what = "step %d %s" % (oi, {k: v for k, v in r["ops"][oi].items() if k != "logs"})
        else:
            what = "ticker period %s s or final queue contents %s" % (r["period"], r.get("final"))
        ctx.problem("correspondence", "model (Reobserve.v) differs from the implementation", "%s %d: %s; %d differing observations" % (r["k"], r["idx"], what, len(qs)),
                    concrete=False, replay=replay_of(r, oi))
    ctx.cov["traces_validated_against_impl"] = len(rows)
    ctx.cov["observations_validated_against_impl"] = nops
    ctx.cov["mismatches"] = len(bad)
    ctx.assumptions = ["Go channel semantics (a select with default never blocks; buffered channels are FIFO with the given capacity) are the model's queues: exercised, not proved",
                       "the handler is driven through a clock.Clock whose Now() and ticker the harness controls (unbuffered ticker and request channels as rendezvous); with the real clock the ticker fires every 7 minutes of wall time and a tick may be delayed or coalesced by the runtime (channel of capacity 1) — the theorem's hypothesis 'a purge tick later than forward + 11 min has fired' covers that",
                       "'about eleven minutes' is read as: never twice within 11 min (proved strict), always again from 18 min = 11 + 7 on (proved, queue permitting); between 11 and 18 min either outcome is allowed (depends on the phase of the purge ticker)",
                       "chain numbers >= 2^16 in a request wrap in vaa.ChainID(req.ChainId) (modelled as mod 65536 and compared); the gossip layer's validation of such requests is outside this property",
                       "monotone clock readings (theorem hypothesis `mono`)"]
    # extension X7: the re-observation loop end to end (real cleanup -> real dispatcher, composed model, cadence / amplification monitors)
    import loop_common
    loop_common.run(ctx, "C17")
