"""helpers shared by the checks of C12, C16, C17"""
import core


def run_cases_retry(ctx, name, rows, header, case_type, gcase, okdef, targets, weight=None, tries=3):
    """core.run_cases, repeated after a rebuild when the shared Coq tree was rebuilt by another run in the meantime
    ("... makes inconsistent assumptions over library ..."): that is a property of the shared build directory, not of the code under test"""
    for k in range(tries):
        n0 = len(ctx.problems)
        bad = core.run_cases(ctx, name, rows, header, case_type, gcase, okdef, weight=weight)
        if bad is not None:
            return bad
        new = ctx.problems[n0:]
        if k + 1 < tries and new and all("inconsistent assumptions" in str(p["detail"]) or "Compiled library" in str(p["detail"]) for p in new):
            del ctx.problems[n0:]
            ctx.say("shared Coq tree changed under the evaluation; rebuilding %s and evaluating again" % ", ".join(targets))
            core.coq_make(list(targets))
            continue
        return None
    return None


def coq_prove_retry(ctx, prop, extra_targets=(), tries=3):
    """core.coq_prove, repeated when the build stumbled over .vo files another run was replacing at the same moment"""
    for k in range(tries):
        n0 = len(ctx.problems)
        ok = core.coq_prove(ctx, prop, extra_targets=list(extra_targets))
        new = ctx.problems[n0:]
        if ok or k + 1 == tries or not new or not all("inconsistent assumptions" in str(p["detail"]) for p in new):
            return ok
        del ctx.problems[n0:]
        ctx.say("shared Coq tree changed under the build; building props/%s.vo again" % prop)
    return False
