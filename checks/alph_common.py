"""Shared machinery of C08 / C09 (Alephium watcher): run the harness, turn its monitor findings into problems, replay
every recorded history on the Coq model (model.AlphWatcher) and compare step by step."""
import json, os
import core

EXTRACTORS = ["alph_confirm", "alph_poll", "alph_filters", "alph_tokeninfo", "alph_reobserve", "alph_process"]
EXTRACTORS_C08 = ["alph_confirm", "alph_filters", "alph_tokeninfo", "alph_reobserve", "alph_process", "alph_pipeline", "alph_pipe_order", "alphconv"]
EXTRACTORS_C09 = ["alph_poll", "alph_filters", "alph_tokeninfo", "alph_process", "alph_pipeline", "alph_pipe_order", "alphconv"]

HDR = ("From Coq Require Import List ZArith Bool.\n"
       "From WH Require Import lib.Wire gen.Extracted model.AlphWatcher.\n"
       "Import ListNotations.\nOpen Scope Z_scope.\n"
       "Definition E (u b i : Z) (c : option wmsg) : cevent := {| e_uid := u; e_block := b; e_index := i; e_conv := c |}.\n"
       "Definition WM (s cl p0 : Z) (t : option tokinfo) : option wmsg := Some {| m_sender := s; m_cl := cl; m_p0 := p0; m_tok := t |}.\n"
       "Definition TI (a b c d : Z) : option tokinfo := Some {| ti_id := a; ti_dec := b; ti_sym := c; ti_name := d |}.\n"
       "Definition H (t h : Z) : option header := Some {| h_ts := t; h_height := h |}.\n"
       "Definition look {A} (d : A) (l : list A) (i : Z) : A := if i <? 0 then d else nth (Z.to_nat i) l d.\n"
       "Definition E0 : cevent := E 0 0 (-9) None.\n"
       "Definition tokof (ta : Z -> mc_ans) (e : cevent) : mc_ans := match e_conv e with Some m => match m_tok m with Some t => ta (ti_id t) | None => McErr end | None => McErr end.\n"
       "Definition pgf (pages : list (Z * page_ans)) (echo : bool) : nat -> Z -> page_ans := fun k s =>\n"
       "  match nth_error pages k with Some (s0, a) => if s0 =? s then a else PageErr | None => if echo then Page [] s else PageErr end.\n"
       "Definition TE (a : Z) (e : cevent) : tevent := {| t_addr := a; t_ev := e |}.\n"
       "Definition RO (ch tl : Z) (st : option (option Z)) (evs : option (list tevent)) (hd : Z -> option header) (ta : Z -> mc_ans) (mc : option bool) (ht : option Z) (now : Z) : op :=\n"
       "  OReobs {| r_chain := ch; r_txlen := tl; r_status := st; r_events := evs; r_hd := hd; r_tok := fun p => tokof ta (t_ev (look (TE 0 E0) (match evs with Some l => l | None => [] end) p));\n"
       "            r_mc := mc; r_height := ht; r_now := now |}.\n"
       "(* expected observation of one step: flag code, forwarded uids (any order), batch uids (in order), page requests, fromIndex, poller flag (-1 = not observed) *)\n"
       "Definition xout := (Z * list Z * list Z * Z * Z * Z)%type.\n"
       "Definition fcode (f : flag) : Z := match f with FNone => 0 | FFatal => 1 | FSpin => 2 | FPanic => 3 end.\n"
       "Fixpoint cnt (x : Z) (l : list Z) : Z := match l with [] => 0 | y :: t => (if x =? y then 1 else 0) + cnt x t end.\n"
       "Definition perm_eqb (a b : list Z) : bool := (Z.of_nat (length a) =? Z.of_nat (length b)) && forallb (fun x => cnt x a =? cnt x b) a.\n"
       "Fixpoint list_eqb (a b : list Z) : bool := match a, b with [], [] => true | x :: s, y :: t => (x =? y) && list_eqb s t | _, _ => false end.\n"
       "Definition opt (want got : Z) : bool := (want <? 0) || (want =? got).\n"
       "(* expected forwards [-1] = not compared *)\n"
       "Definition fw_ok (got want : list Z) : bool := match want with [w] => if w =? -1 then true else perm_eqb got want | _ => perm_eqb got want end.\n"
       "Definition out_ok (s : wstate) (o : out) (x : xout) : bool := let '(fl, fw, ba, nr, fr, en) := x in\n"
       "  (fcode (o_flag o) =? fl) && fw_ok (map (fun f => e_uid (f_ev f)) (o_fwd o)) fw && list_eqb (map (fun u => e_uid (u_ev u)) (o_batch o)) ba\n"
       "  && opt nr (Z.of_nat (o_nreq o)) && opt fr (w_from s) && opt en (if w_enabled s then 1 else 0).\n"
       "Fixpoint chk (c : cfg) (s : wstate) (ops : list op) (xs : list xout) : bool :=\n"
       "  match ops, xs with [], [] => true | o :: t, x :: xt => let '(s', r) := step c s o in out_ok s' r x && chk c s' t xt | _, _ => false end.\n"
       "Definition hcase := (cfg * Z * list op * list xout)%type.\n")

OKDEF = "Definition ok (h : hcase) : bool := let '(c, from0, ops, xs) := h in chk c (init from0) ops xs.\n"


def parse_crash(out):
    """a `go test` output that ends in a Go panic / fatal error: (panic value, innermost pkg/alephium frames, receiver pointers of those frames)"""
    import re
    m = re.search(r'^(panic: .*|fatal error: .*)$', out, re.M)
    if not m:
        return None
    value = m.group(1).strip()
    # `panic: X [recovered]` lines may precede; take the goroutine dump that follows
    dump = out[m.start():]
    g = re.search(r'^goroutine \d+ \[running\]:\n((?:.*\n)*?)(?:\n|\Z)', dump, re.M)
    body = g.group(1) if g else dump[:4000]
    frames, ptrs = [], []
    lines = body.split("\n")
    for k, l in enumerate(lines):
        if "/pkg/alephium." in l and not l.startswith("\t"):
            where = lines[k + 1].strip().split(" +")[0] if k + 1 < len(lines) else ""
            fn = l.split("/pkg/alephium.", 1)[1]
            frames.append("%s at %s" % (re.sub(r'\(0x[0-9a-f, {}x.?]*\)$', '(...)', fn), where.replace("/repo/", "").split("node/pkg/alephium/")[-1]))
            ptrs += re.findall(r'0x[0-9a-f]{6,}', l)
    return value, frames[:6], ptrs


def harness_once(ctx, env):
    n = os.environ.get("VERIF_W_N")
    e = dict(env or {})
    if n and "VERIF_W_N" not in e:
        e["VERIF_W_N"] = n
    rc, out, trace = core.harness_pkg(ctx, "alephium_watcher", "^TestVerifWatcher$", env=e or None, timeout=1500, race=(ctx.tier == "thorough"))
    return rc, out, core.read_jsonl(trace)


def run_harness(ctx):
    """runs the harness; a run that died of a panic in one of the watcher's own goroutines (Watcher.Run starts them bare) is itself
    a finding: it is reported with the panic value, the innermost pkg/alephium frames and the scenario being fed (progress
    markers), and the scenarios that had not finished are run again without the crashing one"""
    rc, out, allrows = harness_once(ctx, None)
    rows = [r for r in allrows if r.get("k") == "hist"]
    prog = [r for r in allrows if r.get("k") == "progress"]
    phases = {r["phase"] for r in prog}
    crashes = []
    rounds = 0
    while rc != 0 and "histories-done" in phases and rounds < 4:
        rounds += 1
        cr = parse_crash(out)
        started = {r["id"]: r for r in allrows if r.get("k") == "progress" and r.get("phase") == "run"}
        done = {r["id"] for r in allrows if r.get("k") == "run"}
        unfinished = [i for i in started if i not in done]
        if cr is None or not unfinished:
            break
        value, frames, ptrs = cr
        culprit = [i for i in unfinished if started[i].get("watcher") in ptrs]
        cand = culprit or unfinished
        crashes.append({"panic": value, "frames": frames, "scenarios": [started[i] for i in cand], "identified": bool(culprit)})
        ctx.say("harness process died (%s) while free-run scenario(s) %s were running; re-running the unfinished scenarios without %s" % (value, sorted(unfinished), sorted(cand)))
        skip = sorted({s["id"] for c in crashes for s in c["scenarios"]})
        # scenarios that were never started are not known by id here: run everything that has no row yet, except the culprits
        env = {"VERIF_W_N": "0", "VERIF_W_NFH": "0" if "fetch-height-done" in phases else "1", "VERIF_W_SKIPRUN": ",".join(str(i) for i in sorted(set(skip) | done))}
        rc, out, more = harness_once(ctx, env)
        allrows = [r for r in allrows if not (r.get("k") == "progress" and r.get("phase") == "run" and r["id"] not in done)] + more
        phases |= {r["phase"] for r in more if r.get("k") == "progress"}
    if not rows or (rc != 0 and not crashes):
        cr = parse_crash(out)
        if cr and rows:
            ctx.problem("monitor", "the test process running the watcher died: %s; innermost frames: %s" % (cr[0], "; ".join(cr[1]) or "(none in pkg/alephium)"),
                        "go test output", concrete=False, key="process-crash")
        else:
            ctx.problem("correspondence", "go harness (alephium watcher)", out[-1500:])
        if not rows:
            return None
    ctx.crashes = crashes
    hp = [r for r in allrows if "harness_panic" in r]
    if hp:
        ctx.problem("machinery", "harness panic", hp[0]["harness_panic"])
    # free-running scenarios (the real Watcher.Run): judged by their monitors only
    ctx.free_runs = [r for r in allrows if r.get("k") == "run" and "harness_panic" not in r]
    ctx.fh_rows = [r for r in allrows if r.get("k") == "fh"]
    ctx.fhseq_rows = [r for r in allrows if r.get("k") == "fhseq"]
    ctx.cov["fetch_height_answer_sequences"] = [r.get("answers") for r in ctx.fhseq_rows]
    ctx.cov["harness_process_crashes"] = [{"panic": c["panic"], "frames": c["frames"], "scenarios": [s["id"] for s in c["scenarios"]]} for c in crashes]
    return [r for r in rows if "harness_panic" not in r]


def report_crashes(ctx):
    """C09: a panic in one of the watcher's goroutines ends the process ("never crashes the watcher")"""
    for c in getattr(ctx, "crashes", [])[:2]:   # (all of them are listed in coverage.harness_process_crashes)
        ids = [s["id"] for s in c["scenarios"]]
        sc = c["scenarios"][0]
        suspects = [e for e in sc["stream"] if e.get("names_token_contract_with_answer_shape") not in (None, "ok", "native")]
        ctx.problem("monitor", "free run %s of the real Watcher.Run: the process died with `%s` in a goroutine started by Run; innermost frames: %s%s"
                    % (ids if len(ids) > 1 else ids[0], c["panic"], "; ".join(c["frames"]),
                       ("; attestation-shaped events of the stream naming contracts with unusual answers: %s"
                        % [(e["index"], e["names_token_contract_with_answer_shape"]) for e in suspects][:6]) if suspects else ""),
                    "go test died; scenario identified by the watcher pointer in the goroutine dump" if c["identified"] else "go test died; scenarios running at that moment",
                    concrete=True, replay={"monitor": "process crash: " + c["panic"], "frames": c["frames"], "scenarios_running": c["scenarios"]}, key="process-crash")


def replay_of(row, msg):
    """the concrete history: configuration, every event of the simulated chain, the steps with the node's answers and the outputs"""
    return {"monitor": msg, "history_id": row["id"], "family": row["fam"], "mainnet": row["mainnet"], "from0": row["from0"],
            "events": row["events"], "tokens": row["tokens"], "stream": row["log"], "steps": row["steps"]}


def monitors(ctx, rows, prop, limit=6):
    """findings of the Go-side monitors (the property statement evaluated on the simulated chain's ground truth)"""
    seen = {}
    n = 0
    for r in rows:
        for m in r.get("mon", []):
            p, key, msg = m.split("|", 2)
            if p != prop:
                continue
            n += 1
            seen.setdefault(key, []).append((r, msg))
    for r in getattr(ctx, "free_runs", []) + getattr(ctx, "fh_rows", []) + getattr(ctx, "fhseq_rows", []):
        for m in r.get("mon", []):
            p, key, msg = m.split("|", 2)
            if p != prop:
                continue
            n += 1
            seen.setdefault(key, []).append((r, msg))
    for key in sorted(seen):
        if len([k for k in seen if k <= key]) > limit:
            break
        r, msg = min(seen[key], key=lambda x: len(x[0].get("steps", x[0].get("events", []))))   # shortest failing history of the class
        ctx.problem("monitor", "%s (%d histories)" % (msg[:400], len(seen[key])), "observed on the implementation against the simulated node",
                    concrete=True, replay=(replay_of(r, msg) if r.get("k") == "hist" else dict(r, monitor=msg)), key=key)
    return n, {k: len(v) for k, v in seen.items()}


# ------------------------------------------------------------------ history -> Gallina
def z(n):
    n = int(n)
    return "(%d)" % n if n < 0 else str(n)


class Tr:
    ignore_reobs_fwd = False   # C09 does not judge what a re-observation forwards (that is C08)

    def __init__(self, row):
        self.row = row
        self.sid = {"ALPH": 1, "Alephium": 2}
        self.base = None
        for s in row["steps"]:
            if "lo" in s:
                self.base = s["lo"]
                break
        if self.base is None:
            self.base = 0
        self.skip = None

    def strid(self, hexs):
        try:
            b = bytes.fromhex(hexs)
        except ValueError:
            return None
        k = b.strip(b"\0").decode("latin-1")
        if k not in self.sid:
            self.sid[k] = len(self.sid) + 1
        return self.sid[k]

    def conv(self, c):
        if c is None:
            return "None"
        t = c.get("tok")
        tok = "None" if t is None else "(TI %d %d %d %d)" % (t["id"], t["dec"], self.strid(t["sym"]), self.strid(t["name"]))
        return "(WM %d %d %s %s)" % (c["s"], c["cl"], z(c["p0"]), tok)

    def mcans(self, a):
        if a == "err":
            return "McErr"
        rs = []
        for c in a:
            if c is None:
                rs.append("CFailed")
                continue
            vs = []
            for v in c:
                if v[0] == "b":
                    i = self.strid(v[1])
                    vs.append("VBytes None" if i is None else "VBytes (Some %d)" % i)
                elif v[0] == "n":
                    n = int(v[1])
                    vs.append("VNum (Some %d)" % n if 0 <= n <= 255 else "VNum None")   # toUint8 (C11, repaired): exactly 0..255
                else:
                    vs.append("VOther")
            rs.append("COk %s" % core.glist(vs))
        return "McRes %s" % core.glist(rs)

    def case(self):
        row = self.row
        evs = {e["uid"]: e for e in row["events"]}
        nmax = max(evs) if evs else 0
        T = ["E0"] + [("E %d %d %s %s" % (u, evs[u]["blk"], z(evs[u]["idx"]), self.conv(evs[u]["conv"]))) if u in evs else "E0" for u in range(1, nmax + 1)]
        toks = {t["id"]: t for t in row["tokens"]}
        tmax = max(toks) if toks else 0
        # what the token contracts answer may change during the history (steps "tokchange"): one table per version
        TAs = [["McErr"] + [self.mcans(toks[i]["ans"]) if i in toks else "McErr" for i in range(1, tmax + 1)]]
        ver = 0
        blocks = {}
        for s in row["steps"]:
            for b in s.get("blocks", []):
                blocks[b[0]] = b
        bmax = max(blocks) if blocks else 0
        HD = ["None"] + [("H %s %d" % (z(blocks[i][2] - self.base), blocks[i][3])) if i in blocks else "None" for i in range(1, bmax + 1)]
        ops, xs = [], []
        for s in row["steps"]:
            op = s["op"]
            if s.get("res") == "stall":
                self.skip = "stall"
            if op == "tokchange":
                toks = dict(toks)
                toks[s["id"]] = s
                TAs.append(["McErr"] + [self.mcans(toks[i]["ans"]) if i in toks else "McErr" for i in range(1, tmax + 1)])
                ver += 1
            if op == "poll":
                pages = []
                for p in s["pages"]:
                    if "err" in p:
                        pages.append("(%d, PageErr)" % p["s"])
                    else:
                        pages.append("(%d, Page (map ev %s) %d)" % (p["s"], core.glist(str(u) for u in p["u"]), p["n"]))
                cnt = "None" if s["cnt"] is None else "(Some %d)" % s["cnt"]
                ops.append("OPoll %s (pgf %s %s) tok%d" % (cnt, core.glist(pages), "true" if s["res"] == "spin" else "false", ver))
                fl = {"idle": 0, "batch": 0, "fatal": 1, "spin": 2, "panic": 3}.get(s["res"], 9)
                ok = s["res"] in ("idle", "batch")
                # the model's page loop has fuel count-fromIndex+1 (PSpin = more page requests than that)
                if s["cnt"] is not None and s["nreq"] > max(s["cnt"] - s["from"], 0) + 1:
                    if self.ignore_reobs_fwd is False and s["res"] == "batch":
                        self.skip = "poll beyond its request bound (judged by C09)"
                    elif s["res"] in ("batch", "spin"):
                        fl, ok = 2, False
                    else:
                        self.skip = "poll beyond the request bound that ended with " + s["res"]
                xs.append("(%d, [], %s, %s, %s, -1)" % (fl, core.glist(str(u) for u in s["batch"]) if ok else "[]",
                                                        z(s["nreq"]) if s["res"] == "batch" else "-1", z(s["newfrom"]) if ok else "-1"))
            elif op == "deliver":
                ops.append("ODeliver")
                xs.append("(0, [], [], -1, -1, %d)" % (1 if s["enabled"] else 0))
            elif op == "tick":
                bl = {b[0]: b for b in s["blocks"]}
                if s["err"] == "mainchain":
                    mc = "(fun _ => None)"
                else:
                    mc = "(look (@None bool) %s)" % core.glist(["None"] + [("Some true" if bl[i][1] else "Some false") if i in bl else "None" for i in range(1, bmax + 1)])
                hd = "(fun _ => None)" if s["err"] == "header" else "hd"
                ops.append("OTick %d %s %s %s" % (s["height"], z(s["lo"] - self.base), mc, hd))
                fl = {"ok": 0, "fatal": 1, "panic": 3}.get(s["res"], 9)
                xs.append("(%d, %s, [], -1, -1, %s)" % (fl, core.glist(str(u) for u in s["fwd"]), ("1" if s["enabled"] else "0") if fl == 0 else "-1"))
            elif op == "reobs":
                if s["status"] is None:
                    st = "None"
                elif s["status"] == -1:
                    st = "(Some None)"
                else:
                    st = "(Some (Some %d))" % s["status"]
                ev = "None" if s["events"] is None else "(Some %s)" % core.glist("TE %d (ev %d)" % (evs[u]["c"], u) for u in s["events"])
                hd = "hd" if s["hderr"] < 0 else "(fun b => if b =? %d then None else hd b)" % s["hderr"]
                mc = "None" if s["mc"] is None else ("(Some true)" if s["mc"] else "(Some false)")
                ht = "None" if s["height"] is None else "(Some %d)" % s["height"]
                ops.append("RO %d %d %s %s %s ta%d %s %s %s" % (s["chain"], s["txlen"], st, ev, hd, ver, mc, ht, z(s["lo"] - self.base)))
                fl = {"ok": 0, "panic": 3}.get(s["res"], 9)
                xs.append("(%d, %s, [], -1, -1, -1)" % (fl, "[-1]" if self.ignore_reobs_fwd else core.glist(str(u) for u in s["fwd"])))
        tabs = " ".join("let ta%d := look McErr %s in let tok%d := fun i => tokof ta%d (look E0 L i) in" % (k, core.glist(ta), k, k) for k, ta in enumerate(TAs))
        text = ("(let T := %s in let ev := look E0 T in let hd := look (@None header) %s in\n"
                "  let L := map ev %s in %s\n"
                "  ({| c_gov := 0; c_bridge := 1; c_mainnet := %s |}, %d, %s, %s))"
                % (core.glist(T), core.glist(HD), core.glist(str(u) for u in row["log"]), tabs,
                   "true" if row["mainnet"] else "false", row["from0"], core.glist(ops), core.glist(xs)))
        return text


def model_compare(ctx, name, rows, ignore_reobs_fwd=False):
    """run the model on every recorded history inside Coq; returns (#compared, mismatching rows)"""
    Tr.ignore_reobs_fwd = ignore_reobs_fwd
    usable, skipped = [], {}
    texts = {}
    for r in rows:
        if r.get("ambiguous"):
            skipped["timing too close to a hold-time boundary"] = skipped.get("timing too close to a hold-time boundary", 0) + 1
            continue
        tr = Tr(r)
        t = tr.case()
        if tr.skip:
            skipped[tr.skip] = skipped.get(tr.skip, 0) + 1
            continue
        texts[r["id"]] = t
        usable.append(r)
    ctx.cov["histories_not_compared_with_model"] = skipped
    bad = core.run_cases(ctx, name, usable, HDR, "hcase", lambda r: texts[r["id"]], OKDEF, weight=lambda r: len(texts[r["id"]]) // 40)
    if bad is None:
        return len(usable), None
    return len(usable), [usable[i] for i in bad]


FH_HDR = ("From Coq Require Import List ZArith Bool.\nFrom WH Require Import lib.Wire gen.Extracted model.AlphWatcher.\nImport ListNotations.\nOpen Scope Z_scope.\n"
          "Definition fc : cfg := {| c_gov := 0; c_bridge := 1; c_mainnet := false |}.\n"
          "Definition fu : uevent := {| u_ev := {| e_uid := 1; e_block := 5; e_index := alph_wm_event_index; e_conv := None |}; u_msg := {| m_sender := 1; m_cl := 0; m_p0 := 1; m_tok := None |}; u_chain := None |}.\n"
          "Definition fs (en : bool) : wstate := {| w_from := 0; w_inflight := None; w_pending := [ {| pb_hash := 5; pb_hdr := None; pb_evs := [fu] |} ]; w_enabled := en; w_dead := false |}.\n"
          "(* outcome of one tick of _fetchHeight: 0 = nothing, 1 = the height reached the event loop (the pending final event is forwarded), 2 = error on errC *)\n"
          "Definition fh_code (en : bool) (ans : option Z) : Z := let '(s', x) := fetch_height_tick fc (fs en) ans 100000 (fun _ => Some true) (fun _ => Some {| h_ts := 0; h_height := 0 |}) in\n"
          "  match o_flag x with FFatal => 2 | FNone => if is_nil (o_fwd x) then 0 else 1 | _ => 9 end.\n")


def fetch_height_compare(ctx, name):
    """_fetchHeight (gate, request, hand-over) against the model's fetch_height_tick"""
    rows = getattr(ctx, "fh_rows", [])
    if not rows:
        ctx.problem("correspondence", "go harness (alephium watcher)", "no _fetchHeight rows in the trace")
        return
    code = {"nothing": 0, "tick": 1, "fatal": 2}
    bad = core.run_cases(ctx, name, rows, FH_HDR, "bool * option Z * Z",
                         lambda r: "(%s, %s, %d)" % ("true" if r["enabled"] else "false", "None" if r["ans"] is None else "(Some %d)" % r["ans"], code.get(r["res"], 8)),
                         "Definition ok (c : bool * option Z * Z) : bool := let '(en, ans, k) := c in fh_code en ans =? k.\n", nshards=1)
    if bad is None:
        return
    ctx.cov["fetch_height_cases_compared_with_model"] = len(rows)
    for i in bad[:2]:
        ctx.problem("correspondence", "model fetch_height_tick differs from _fetchHeight", str({k: v for k, v in rows[i].items() if k != "mon"}), concrete=False, replay=rows[i])


def first_divergence(ctx, name, row):
    """length of the longest prefix of the history on which model and implementation agree (for the report)"""
    lo, hi = 0, len(row["steps"])
    # binary search needs monotonicity: a prefix of an agreeing history agrees
    while lo < hi:
        mid = (lo + hi + 1) // 2
        r2 = dict(row, steps=row["steps"][:mid])
        b = core.run_cases(ctx, name + "_div", [r2], HDR, "hcase", lambda r: Tr(r).case(), OKDEF, nshards=1)
        if b is None:
            return None
        if b:
            hi = mid - 1
        else:
            lo = mid
    return lo


def coverage(ctx, rows):
    from collections import Counter
    ops, res, fams = Counter(), Counter(), Counter()
    fwd = 0
    evk = Counter()
    for r in rows:
        fams[r["fam"]] += 1
        for s in r["steps"]:
            ops[s["op"]] += 1
            res["%s:%s" % (s["op"], s.get("res"))] += 1
            fwd += len(s.get("fwd", []))
        for e in r["events"]:
            if e["conv"] is None:
                evk["malformed:" + e["what"]] += 1
            else:
                evk[{"t": "transfer", "a": "attest", "o": "other"}[e["conv"]["k"]] + ("" if e["conv"]["s"] == 1 else "-foreign") + ("" if e["c"] == 0 else "-othercontract")] += 1
    ctx.cov["families"] = dict(fams)
    ctx.cov["steps_by_kind"] = dict(ops)
    ctx.cov["step_outcomes"] = dict(res)
    ctx.cov["messages_forwarded"] = fwd
    ctx.cov["events_by_class"] = dict(evk)
    ctx.cov["token_answer_shapes"] = dict(Counter(t["shape"] for r in rows for t in r["tokens"]))
    ctx.cov["levels"] = dict(Counter(e["conv"]["cl"] for r in rows for e in r["events"] if e["conv"]))
    ctx.cov["node_requests"] = sum(r.get("requests", 0) for r in rows)
    ctx.cov["slowest_history_ms"] = max(r.get("ms", 0) for r in rows)
    fr = getattr(ctx, "free_runs", [])
    ctx.cov["free_runs_of_the_real_Run"] = {"scenarios": len(fr), "events": sum(len(r["events"]) for r in fr), "events_that_had_to_be_forwarded": sum(1 for r in fr for e in r["events"] if e["must"]),
                                            "forwarded": sum(len(r["forwarded"]) for r in fr), "count_requests": sum(r["count_requests"] for r in fr), "page_requests": sum(r["page_requests"] for r in fr),
                                            "inconclusive_request_timed_out_in_the_client": sum(1 for r in fr if r.get("client_timeout"))}


# ================================================================== X2: the composed pipeline (model.AlphPipeline) on the histories of the "fields" family
EXTRACTORS_PIPE = ["alph_pipeline", "alph_pipe_order", "alphconv"]

PIPE_HDR = ("From Coq Require Import Uint63.\nFrom Coq Require Import Strings.String.\nFrom Coq Require Import List ZArith Bool Arith Strings.Byte.\n"
            "From WH Require Import lib.Bytes lib.Wire gen.Extracted model.Vaa model.AlphPipeline.\n"
            "Import ListNotations.\nOpen Scope Z_scope.\n"
            "Definition FV (v : Z) (s : bytes) : C.val := if v =? 1 then C.VU256 (C.str \"U256\") s else if v =? 2 then C.VByteVec (C.str \"ByteVec\") s else C.VOther.\n"
            "Definition XE (u b i : Z) (tx : bytes) (fs : list C.val) : xevent := {| x_uid := u; x_block := b; x_txid := tx; x_index := i; x_fields := fs |}.\n"
            "Definition XE0 : xevent := XE 0 0 (-9) [] [].\n"
            "Definition HX (ws : list Uint63.int) : bytes := C.hex_encode (B ws).\n"
            "Definition TXI (n : Z) : bytes := C.hex_encode (be 28 31354 ++ be 4 n).\n"
            "Definition H (t h : Z) : option W.header := Some {| W.h_ts := t; W.h_height := h |}.\n"
            "Definition look {A} (d : A) (l : list A) (i : Z) : A := if i <? 0 then d else nth (Z.to_nat i) l d.\n"
            "Definition tabf (ta : list (bytes * xmc_ans)) (id : bytes) : xmc_ans := match find (fun p => bytes_eqb (fst p) id) ta with Some p => snd p | None => XMcErr end.\n"
            "(* the node's multicall answer for the token contract an event names (asked only for fitting attestation-shaped events) *)\n"
            "Definition xtokof (ta : bytes -> xmc_ans) (e : xevent) : xmc_ans :=\n"
            "  match conv e with Some w => match C.parse_attest_token (C.w_payload w) with C.COk t => ta (C.t_id t) | C.CErr _ => XMcErr end | None => XMcErr end.\n"
            "Definition xpgf (pages : list (Z * xpage_ans)) (echo : bool) : nat -> Z -> xpage_ans := fun k s =>\n"
            "  match nth_error pages k with Some (s0, a) => if s0 =? s then a else XPageErr | None => if echo then XPage [] s else XPageErr end.\n"
            "Definition XTE (a : Z) (e : xevent) : xtevent := {| xt_addr := a; xt_ev := e |}.\n"
            "Definition XRO (ch : Z) (tx : bytes) (st : option (option Z)) (evs : option (list xtevent)) (hd : Z -> option W.header) (ta : bytes -> xmc_ans) (mc : option bool) (ht : option Z) (now : Z) : xop :=\n"
            "  XReobs {| xr_chain := ch; xr_txhash := tx; xr_status := st; xr_events := evs; xr_hd := hd;\n"
            "            xr_tok := fun p => xtokof ta (xt_ev (look (XTE 0 XE0) (match evs with Some l => l | None => [] end) p)); xr_mc := mc; xr_height := ht; xr_now := now |}.\n"
            "(* a forwarded message as the observer sees it: uid, H(emitter address), target chain, sequence, nonce, H(payload), level, seconds, nanoseconds, emitter chain, H(tx hash) *)\n"
            "Definition xm := (Z * Z * Z * Z * Z * Z * Z * Z * Z * Z * Z)%type.\n"
            "Definition digest (full : bool) (f : xfwd) : xm := let m := xf_pub f in\n"
            "  if full then (x_uid (xf_ev f), hash_bytes (m_eaddr m), m_tchain m, m_seq m, m_nonce m, hash_bytes (m_payload m), m_cl m, m_ts m, m_tns m, m_echain m, hash_bytes (m_tx m))\n"
            "  else (x_uid (xf_ev f), 0, 0, 0, 0, 0, 0, 0, 0, 0, 0).\n"
            "Definition xm_eqb (a b : xm) : bool := let '(a0, a1, a2, a3, a4, a5, a6, a7, a8, a9, a10) := a in let '(b0, b1, b2, b3, b4, b5, b6, b7, b8, b9, b10) := b in\n"
            "  (a0 =? b0) && (a1 =? b1) && (a2 =? b2) && (a3 =? b3) && (a4 =? b4) && (a5 =? b5) && (a6 =? b6) && (a7 =? b7) && (a8 =? b8) && (a9 =? b9) && (a10 =? b10).\n"
            "Definition xcount (x : xm) (l : list xm) : nat := length (filter (xm_eqb x) l).\n"
            "Definition xperm (a b : list xm) : bool := Nat.eqb (length a) (length b) && forallb (fun x => Nat.eqb (xcount x a) (xcount x b)) a.\n"
            "Fixpoint list_eqb (a b : list Z) : bool := match a, b with [], [] => true | x :: s, y :: t => (x =? y) && list_eqb s t | _, _ => false end.\n"
            "(* expected batch [-7] = not compared *)\n"
            "Definition ba_ok (got want : list Z) : bool := match want with [w] => if w =? -7 then true else list_eqb got want | _ => list_eqb got want end.\n"
            "Definition opt (want got : Z) : bool := (want <? 0) || (want =? got).\n"
            "Definition fcode (f : W.flag) : Z := match f with W.FNone => 0 | W.FFatal => 1 | W.FSpin => 2 | W.FPanic => 3 end.\n"
            "(* expected observation of one step: flag code, forwarded messages (any order; None = not compared), full digests?, batch uids (in order), page requests, fromIndex, poller flag *)\n"
            "Definition xexp := (Z * option (list xm) * bool * list Z * Z * Z * Z)%type.\n"
            "Definition xout_ok (s : xstate) (o : xout) (x : xexp) : bool := let '(fl, fw, full, ba, nr, fr, en) := x in\n"
            "  (fcode (xo_flag o) =? fl) && match fw with None => true | Some l => xperm (map (digest full) (xo_fwd o)) l end\n"
            "  && ba_ok (map (fun u => x_uid (xu_ev u)) (xo_batch o)) ba && opt nr (Z.of_nat (xo_nreq o)) && opt fr (x_from s) && opt en (if x_enabled s then 1 else 0).\n"
            "Fixpoint xchk (c : xcfg) (s : xstate) (ops : list xop) (xs : list xexp) : bool :=\n"
            "  match ops, xs with [], [] => true | o :: t, x :: xt => let '(s', r) := xstep c s o in xout_ok s' r x && xchk c s' t xt | _, _ => false end.\n"
            "Definition pcase := (xcfg * Z * list xop * list xexp)%type.\n")

PIPE_OKDEF = "Definition ok (h : pcase) : bool := let '(c, from0, ops, xs) := h in xchk c (xinit from0) ops xs.\n"


def gB(hexs):
    return "(B %s)" % core.gbytes(hexs or "")


import re as _re
_HEXSTR = _re.compile(rb'^(?:[0-9a-f]{2}){8,}$')
_TXID = _re.compile(rb'^0{52}7a7a([0-9a-f]{8})$')


def gS(hexs):
    """a string of the node's JSON (given as the hex of its bytes) as Gallina bytes; lower-case hex strings are shipped as the bytes
    they denote and re-encoded inside Coq (half the literals), the simulated node's tx ids as their number"""
    s = bytes.fromhex(hexs or "")
    m = _TXID.match(s)
    if m:
        return "(TXI %d)" % int(m.group(1), 16)
    if _HEXSTR.match(s):
        return "(HX %s)" % core.gbytes(s.decode())
    return gB(hexs)


class PipeTr:
    """one recorded history of the fields family as a case of model.AlphPipeline.
    mode: 'full' = every field of every forwarded message; 'uid' = forwarded messages by uid, re-observation forwards not compared (C09);
    'msgs' = every field of every forwarded message, but neither the batches nor the poller flag (C11: the internal hand-over
    between fetchEvents and the event loop is C09's business)"""

    def __init__(self, row, mode):
        self.row, self.mode, self.skip = row, mode, None

    def digest(self, m):
        if self.mode == "uid":
            return "(%d, 0, 0, 0, 0, 0, 0, 0, 0, 0, 0)" % m["uid"]
        return "(%d, %d, %d, %s, %d, %d, %d, %s, %d, %d, %d)" % (m["uid"], core.hash_bytes(m["eaddr"]), m["tchain"], m["seq"], m["nonce"], core.hash_bytes(m["payload"]), m["cl"],
                                                                  z(m["secs"]), m["nsec"], m["echain"], core.hash_bytes(m["txhash"]))

    def ans(self, t):
        if "raw" not in t:
            return "XMcErr"
        rs = []
        for c in t["raw"]:
            if c is None:
                rs.append("XFailed")
            else:
                rs.append("XOk %s" % core.glist("FV %d %s" % (v[0], gS(v[1])) for v in c))
        return "XMcRes %s" % core.glist(rs)

    def case(self):
        row = self.row
        full = self.mode in ("full", "msgs")
        nob = self.mode == "msgs"
        evs = {e["uid"]: e for e in row["events"]}
        nmax = max(evs) if evs else 0
        T = ["XE0"]
        for u in range(1, nmax + 1):
            if u not in evs:
                T.append("XE0")
                continue
            e = evs[u]
            T.append("XE %d %d %s %s %s" % (u, e["blk"], z(e["idx"]), gS(e["raw"]["txid"]), core.glist("FV %d %s" % (f[0], gS(f[1])) for f in e["raw"]["f"])))
        cur = {t["id"]: t for t in row["tokens"]}
        order = [t["id"] for t in row["tokens"]]
        TAs = [["(%s, %s)" % (gB(cur[i]["idhex"]), self.ans(cur[i])) for i in order]]
        ver = 0
        blocks = {}
        for s in row["steps"]:
            for b in s.get("blocks", []):
                blocks[b[0]] = b
        bmax = max(blocks) if blocks else 0
        HD = ["None"] + [("H %s %d" % (z(blocks[i][2]), blocks[i][3])) if i in blocks else "None" for i in range(1, bmax + 1)]
        ops, xs = [], []
        fb = "true" if full else "false"
        for s in row["steps"]:
            op = s["op"]
            if s.get("res") == "stall":
                self.skip = "stall"
            if op == "tokchange":
                cur = dict(cur)
                cur[s["id"]] = s
                TAs.append(["(%s, %s)" % (gB(cur[i]["idhex"]), self.ans(cur[i])) for i in order])
                ver += 1
            if op == "poll":
                pages = []
                for p in s["pages"]:
                    if "err" in p:
                        pages.append("(%d, XPageErr)" % p["s"])
                    else:
                        pages.append("(%d, XPage (map ev %s) %d)" % (p["s"], core.glist(str(u) for u in p["u"]), p["n"]))
                cnt = "None" if s["cnt"] is None else "(Some %d)" % s["cnt"]
                ops.append("XPoll %s (xpgf %s %s) tok%d" % (cnt, core.glist(pages), "true" if s["res"] == "spin" else "false", ver))
                fl = {"idle": 0, "batch": 0, "fatal": 1, "spin": 2, "panic": 3}.get(s["res"], 9)
                ok = s["res"] in ("idle", "batch")
                if s["cnt"] is not None and s["nreq"] > max(s["cnt"] - s["from"], 0) + 1:
                    if s["res"] in ("batch", "spin") and self.mode == "uid":
                        fl, ok = 2, False
                    else:
                        self.skip = "poll beyond its request bound"
                xs.append("(%d, Some [], %s, %s, %s, %s, -1)" % (fl, fb, "[-7]" if nob else (core.glist(str(u) for u in s["batch"]) if ok else "[]"),
                                                                z(s["nreq"]) if s["res"] == "batch" else "-1", z(s["newfrom"]) if ok else "-1"))
            elif op == "deliver":
                ops.append("XDeliver")
                xs.append("(0, Some [], %s, [], -1, -1, %d)" % (fb, -1 if nob else (1 if s["enabled"] else 0)))
            elif op == "tick":
                bl = {b[0]: b for b in s["blocks"]}
                if s["err"] == "mainchain":
                    mc = "(fun _ => None)"
                else:
                    mc = "(look (@None bool) %s)" % core.glist(["None"] + [("Some true" if bl[i][1] else "Some false") if i in bl else "None" for i in range(1, bmax + 1)])
                hd = "(fun _ => None)" if s["err"] == "header" else "hd"
                ops.append("XTick %d %s %s %s" % (s["height"], z(s["lo"]), mc, hd))
                fl = {"ok": 0, "fatal": 1, "panic": 3}.get(s["res"], 9)
                xs.append("(%d, Some %s, %s, [], -1, -1, %s)" % (fl, core.glist(self.digest(m) for m in s["msgs"]), fb, ("1" if s["enabled"] else "0") if fl == 0 and not nob else "-1"))
            elif op == "reobs":
                if s["status"] is None:
                    st = "None"
                elif s["status"] == -1:
                    st = "(Some None)"
                else:
                    st = "(Some (Some %d))" % s["status"]
                ev = "None" if s["events"] is None else "(Some %s)" % core.glist("XTE %d (ev %d)" % (evs[u]["c"], u) for u in s["events"])
                hd = "hd" if s["hderr"] < 0 else "(fun b => if b =? %d then None else hd b)" % s["hderr"]
                mc = "None" if s["mc"] is None else ("(Some true)" if s["mc"] else "(Some false)")
                ht = "None" if s["height"] is None else "(Some %d)" % s["height"]
                ops.append("XRO %d %s %s %s %s ta%d %s %s %s" % (s["chain"], gB(s["txhash"]), st, ev, hd, ver, mc, ht, z(s["lo"])))
                fl = {"ok": 0, "panic": 3}.get(s["res"], 9)
                fw = "None" if self.mode == "uid" else "(Some %s)" % core.glist(self.digest(m) for m in s["msgs"])
                xs.append("(%d, %s, %s, [], -1, -1, -1)" % (fl, fw, fb))
        tabs = " ".join("let ta%d := tabf %s in let tok%d := fun i => xtokof ta%d (look XE0 L i) in" % (k, core.glist(ta), k, k) for k, ta in enumerate(TAs))
        return ("(let T := %s in let ev := look XE0 T in let hd := look (@None W.header) %s in\n"
                "  let L := map ev %s in %s\n"
                "  ({| xc_gov := 0; xc_bridge := %s; xc_mainnet := %s |}, %d, %s, %s))"
                % (core.glist(T), core.glist(HD), core.glist(str(u) for u in row["log"]), tabs, gB(row["bridge"]),
                   "true" if row["mainnet"] else "false", row["from0"], core.glist(ops), core.glist(xs)))


def pipe_rows(rows):
    return [r for r in rows if r.get("fam") == "fields" and "harness_panic" not in r]


def pipe_compare(ctx, name, rows, mode):
    """the composed model (model.AlphPipeline) replayed inside Coq on every history of the fields family: raw fields in, the
    FULL forwarded messages (mode 'full') / batches and forwarded uids (mode 'uid') compared. Returns (#compared, bad rows)"""
    usable, texts, skipped = [], {}, {}
    for r in pipe_rows(rows):
        if r.get("ambiguous"):
            skipped["timing too close to a hold-time boundary"] = skipped.get("timing too close to a hold-time boundary", 0) + 1
            continue
        tr = PipeTr(r, mode)
        t = tr.case()
        if tr.skip:
            skipped[tr.skip] = skipped.get(tr.skip, 0) + 1
            continue
        texts[r["id"]] = t
        usable.append(r)
    ctx.cov["pipeline_histories_not_compared"] = skipped
    if not usable:
        ctx.problem("correspondence", "go harness (alephium watcher)", "no history of the fields family in the trace")
        return 0, None
    bad = core.run_cases(ctx, name, usable, PIPE_HDR, "pcase", lambda r: texts[r["id"]], PIPE_OKDEF, weight=lambda r: len(texts[r["id"]]) // 40)
    if bad is None:
        return len(usable), None
    return len(usable), [usable[i] for i in bad]


def pipe_first_divergence(ctx, name, row, mode):
    lo, hi = 0, len(row["steps"])
    while lo < hi:
        mid = (lo + hi + 1) // 2
        r2 = dict(row, steps=row["steps"][:mid])
        b = core.run_cases(ctx, name + "_div", [r2], PIPE_HDR, "pcase", lambda r: PipeTr(r, mode).case(), PIPE_OKDEF, nshards=1)
        if b is None:
            return None
        if b:
            hi = mid - 1
        else:
            lo = mid
    return lo


def pipe_replay(row, msg):
    """the concrete history with the raw fields of every event and the full forwarded messages"""
    def txt(h):
        return bytes.fromhex(h).decode("utf-8", "backslashreplace")
    evs = [{"uid": e["uid"], "block": e["blk"], "contract": e["c"], "index": e["idx"], "fits": e["conv"] is not None, "what": e.get("what"),
            "fields": [{"variant": {1: "U256", 2: "ByteVec"}.get(f[0], "other"), "value": txt(f[1])} for f in e["raw"]["f"]]} for e in row["events"]]
    return {"monitor": msg, "history_id": row["id"], "family": row["fam"], "mainnet": row["mainnet"], "from0": row["from0"], "bridge": row["bridge"],
            "events": evs, "tokens": row["tokens"], "stream": row["log"], "steps": row["steps"]}


def pipe_start(ctx, name, rows, mode):
    """pipe_report in a thread of its own (its coqc shards run next to those of the abstract comparison); join with .join()"""
    import threading, traceback

    def work():
        try:
            pipe_report(ctx, name, rows, mode)
        except Exception as e:
            traceback.print_exc()
            ctx.problem("machinery", "pipeline comparison", repr(e))
    th = threading.Thread(target=work)
    th.start()
    return th


def pipe_report(ctx, name, rows, mode):
    """run pipe_compare, report mismatches, fill coverage"""
    n, bad = pipe_compare(ctx, name, rows, mode)
    pr = pipe_rows(rows)
    from collections import Counter
    ctx.cov["pipeline"] = {"histories": len(pr), "compared_with_composed_model": n, "mode": mode,
                           "events_fitting": sum(1 for r in pr for e in r["events"] if e["conv"] is not None),
                           "events_unfit": sum(1 for r in pr for e in r["events"] if e["conv"] is None),
                           "unfit_classes": len({e.get("what") for r in pr for e in r["events"] if e["conv"] is None}),
                           "messages_forwarded_full_compare": sum(len(s.get("msgs", [])) for r in pr for s in r["steps"]),
                           "longest_payload": max([e["gt"]["payload_len"] for r in pr for e in r["events"] if "gt" in e] or [0]),
                           "boundary_values_forwarded": dict(Counter(k for r in pr for s in r["steps"] for m in s.get("msgs", [])
                                                                     for k in (("seq=2^64-1",) if m["seq"] == "18446744073709551615" else ()) +
                                                                     (("target=65535",) if m["tchain"] == 65535 else ()) + (("level=255",) if m["cl"] == 255 else ())))}
    if bad is None:
        return
    ctx.cov["pipeline"]["mismatches"] = len(bad)
    for r in bad[:3]:
        k = pipe_first_divergence(ctx, name, r, mode)
        ctx.problem("correspondence", "composed model (AlphPipeline) differs from the watcher on history %d" % r["id"],
                    "first diverging step %s: %s" % (k, str(r["steps"][k] if k is not None and k < len(r["steps"]) else "")[:500]),
                    concrete=False, replay=pipe_replay(r, "composed model / implementation divergence at step %s" % k))
