"""C03 — gossip not signed by a current guardian cannot change node state (observations, heartbeats, re-observation requests;
domain separation; heartbeat table bound)."""
import json
import core
import overlay
import proc_common

HDR = ("From Coq Require Import Uint63.\nFrom Coq Require Import List ZArith Bool Arith Strings.Byte.\n"
       "From WH Require Import lib.Bytes lib.Wire gen.Extracted gen.ExtractedP2P model.Vaa model.P2PVerify lib.P2PWire.\n"
       "Import ListNotations.\nOpen Scope Z_scope.\n")

CODES = {"ok": 0, "not-in-set": 1, "too-short": 2, "recover": 3, "signer": 4, "unmarshal": 5, "store": 6, "dropped": 7}


def B(h):
    return "(B %s)" % core.gbytes(h or "")


def gmsg(o):
    k = o["k"]
    if k == "set":
        return "(false, GSetGS %s)" % core.glist(B(x) for x in o.get("keys", []))
    if k == "hb":
        return "(%s, GHeartbeat %s %s %s %s)" % (core.gbool(o.get("disable", False)), B(o.get("from")), B(o.get("addr")), B(o.get("payload")), B(o.get("sig")))
    if k == "req":
        return "(false, GObsReq %s %s %s)" % (B(o.get("addr")), B(o.get("payload")), B(o.get("sig")))
    if k == "own":
        return "(false, GOwn %s %s {| hv_payload := %s; hv_ts := %s |})" % (B(o.get("addr")), B(o.get("from")), B(o.get("payload")), core.gz(o.get("ts", "0")))
    if k == "cleanup":
        return "(false, GCleanup %d)" % (o.get("now", 0) * 1000000000 + 1)
    raise ValueError(k)


def ghist(h, pre=None):
    """pre = (hex prefix the source hashes for heartbeats, same for requests): only the table entries the model can look up are shipped"""
    kec, rec = h["keccak"], h["rec"]
    if pre is not None:
        want = set()
        for o in h["ops"]:
            if o["k"] == "hb":
                want.add(pre[0] + o.get("payload", ""))
            elif o["k"] == "req":
                want.add(pre[1] + o.get("payload", ""))
        kec = [(a, b) for a, b in kec if a in want]
        dg = {b for _, b in kec}
        rec = [(a, b, c) for a, b, c in rec if a in dg]
    kc = core.glist("(%s, %s)" % (B(a), B(b)) for a, b in kec)
    rc = core.glist("(%s, %s, %s)" % (B(a), B(b), "Some %s" % B(c) if c else "None") for a, b, c in rec)
    dh = core.glist("(%s, %s)" % (B(a), ("Some %s" % core.gz(b)) if b != "" else "None") for a, b in h["dechb"])
    dr = core.glist("(%s, %s)" % (B(a), core.gbool(b == "1")) for a, b in h["decreq"])
    ops = core.glist(gmsg(o) for o in h["ops"])
    ex = core.glist("[%d;%d;%d;%d;%d]%%uint63" % (1 if s.get("skip") else 0, CODES.get(s["res"], 99), s["th"], s["ne"], s["na"]) for s in h["steps"])
    return ("{| ph_keccak := %s; ph_rec := %s; ph_dechb := %s; ph_decreq := %s; ph_ops := %s; ph_expect := %s |}" % (kc, rc, dh, dr, ops, ex))


def weight(h):
    return sum(len(a) + len(b) for a, b in h["keccak"]) // 6 + 40 * len(h["rec"]) + sum(len(json.dumps(o)) for o in h["ops"]) // 2


def compare_p2p(ctx, rows, name, pre=None):
    nsh = 14
    idx = sorted(range(len(rows)), key=lambda i: -weight(rows[i]))
    bins = [[] for _ in range(min(nsh, len(rows)))]
    load = [0] * len(bins)
    for i in idx:
        j = load.index(min(load))
        bins[j].append(i)
        load[j] += weight(rows[i]) + 200
    bins = [sorted(b) for b in bins if b]
    # check_p2hist_k: the recorded keccak pairs that are shipped are first validated against the Gallina Keccak-256 (lib/Keccak.v), -2 if not
    # (measured: +20 % evaluation time; quick tier validates the tables of every 4th history, thorough tier all of them)
    every = 1 if ctx.tier == "thorough" else 4
    bins = [[i for i in b if i % every == 0] + [i for i in b if i % every != 0] for b in bins]
    texts = [HDR + "Definition casesK : list p2hist := %s.\nDefinition cases0 : list p2hist := %s.\n"
             "Definition M := Eval vm_compute in map check_p2hist_k casesK ++ map check_p2hist cases0.\nPrint M.\n"
             % (core.glist(ghist(rows[i], pre) for i in b if i % every == 0), core.glist(ghist(rows[i], pre) for i in b if i % every != 0)) for b in bins]
    ctx.cov["p2p_keccak_tables_validated_in_coq"] = sum(1 for b in bins for i in b if i % every == 0)
    res = core.coq_eval_many(ctx, name, texts, timeout=1500)
    bad, cut = [], 0
    nkbad = 0
    for b, (ok, o) in zip(bins, res):
        m = core.parse_print(o, "M")
        if not ok or m is None:
            ctx.problem("correspondence", name + " evaluation", o[-800:])
            return None, 0
        vals = core.zlist(m)
        if len(vals) != len(b):
            ctx.problem("correspondence", name + " evaluation", "result length mismatch")
            return None, 0
        for i, v in zip(b, vals):
            if v >= 0:
                bad.append((i, v))
            elif v == -3:
                cut += 1
            elif v == -2:
                nkbad += 1
                if nkbad <= 2:
                    ctx.problem("correspondence", "a recorded Keccak256 result is not the value of the Gallina keccak256 (lib/Keccak.v)",
                                "p2p history %s" % rows[i]["id"], concrete=False, replay={"history": rows[i]["id"], "keccak_table": rows[i]["keccak"][:50]})
    ctx.cov["p2p_keccak_table_histories_rejected"] = nkbad
    return sorted(bad), cut


def describe_p2p(h, step):
    return {"history": h["id"], "shape": h.get("shape"), "ops": h["ops"][:step + 1],
            "impl_steps": [{k: v for k, v in s.items() if k in ("res", "upd", "th", "ne", "na", "max", "err", "mon")} for s in h["steps"][:step + 1]]}


def mon_key(m):
    if m.startswith("cap:"):
        return "p2p:cap"
    if m.startswith("heartbeat had an effect"):
        return "p2p:heartbeat-unauthenticated-effect"
    if m.startswith("heartbeat rejected"):
        return "p2p:heartbeat-rejected-with-side-effect"
    if m.startswith("accepted heartbeat of signer"):
        return "p2p:heartbeat-stored-elsewhere"
    if m.startswith("observation request would be forwarded"):
        return "p2p:request-unauthenticated-forward"
    return "p2p:" + m[:40]


def p2p_half(ctx, st):
    rc, out, trace = core.harness_pkg(ctx, "p2p", "^TestVerifC03$", timeout=1800, race=(ctx.tier == "thorough"))
    rows = [r for r in core.read_jsonl(trace) if r.get("k") == "hist"]
    if rc != 0 or not rows:
        ctx.problem("correspondence", "go harness p2p", out[-1500:])
        return None
    # ---- monitor (evaluated in Go with direct crypto, independent of the model)
    seen = {}
    nmon = 0
    for h in rows:
        for i, s in enumerate(h["steps"]):
            for m in (s.get("mon") or []):
                nmon += 1
                k = mon_key(m)
                if k in seen:
                    continue
                seen[k] = 1
                if len(seen) <= 6:
                    ctx.problem("monitor", m, "observed on the implementation (history %d step %d, op %s)" % (h["id"], i, h["ops"][i].get("note", h["ops"][i]["k"])),
                                concrete=True, replay=describe_p2p(h, i), key=k)
            if str(s["res"]).startswith("panic") or s["res"] == "other":
                k = "p2p:unexpected-result:" + str(s["res"])[:30]
                if k not in seen:
                    seen[k] = 1
                    ctx.problem("monitor", "verifier call ended with %s" % s["res"], s.get("err", ""), concrete=True, replay=describe_p2p(h, i), key=k)
    ctx.cov["p2p_monitor_messages"] = nmon
    # ---- crypto table completeness for the pre-images the CURRENT source hashes
    info = (st.get("p2p_verify") or {}).get("info") or {}
    miss = 0
    if "hb_pre_hex" in info and "req_pre_hex" in info:
        for h in rows:
            have = {a for a, _ in h["keccak"]}
            for o in h["ops"]:
                if o["k"] == "hb" and info["hb_pre_hex"] + o.get("payload", "") not in have:
                    miss += 1
                if o["k"] == "req" and info["req_pre_hex"] + o.get("payload", "") not in have:
                    miss += 1
        if miss:
            ctx.problem("correspondence", "crypto table miss", "%d messages whose signed pre-image under the extracted prefix was not recorded by the harness "
                        "(the source signs under a prefix the protocol does not use)" % miss)
    # ---- model vs implementation inside Coq
    pre = (info["hb_pre_hex"], info["req_pre_hex"]) if ("hb_pre_hex" in info and "req_pre_hex" in info) else None
    bad, cut = compare_p2p(ctx, rows, "cases_C03p", pre)
    if bad is not None:
        for i, stp in bad[:3]:
            h = rows[i]
            o = h["ops"][stp] if stp < len(h["ops"]) else {}
            s = h["steps"][stp] if stp < len(h["steps"]) else {}
            ctx.problem("correspondence", "model P2PVerify differs from the p2p verifiers / GuardianSetState",
                        "history %d step %d op=%s note=%s impl result=%s entries=%s" % (h["id"], stp, o.get("k"), o.get("note"), s.get("res"), s.get("ne")),
                        concrete=False, replay=describe_p2p(h, stp))
        ctx.cov["p2p_histories_validated_against_impl"] = len(rows)
        ctx.cov["p2p_mismatches"] = len(bad)
        ctx.cov["p2p_histories_cut_at_slow_cleanup"] = cut
    # ---- concurrent callers (race detector in the thorough tier)
    rc2, out2, trace2 = core.harness_pkg(ctx, "p2p", "^TestVerifC03Conc$", timeout=1800, race=(ctx.tier == "thorough"))
    conc = [r for r in core.read_jsonl(trace2) if r.get("k") == "conc"]
    if rc2 != 0 or not conc:
        if "DATA RACE" in out2:
            ctx.problem("monitor", "data race between the heartbeat verifier, Cleanup and GetAll", out2[out2.index("DATA RACE"):][:1200], concrete=True,
                        replay={"test": "TestVerifC03Conc", "race_report": out2[out2.index("DATA RACE"):][:3000]}, key="p2p:race")
        else:
            ctx.problem("correspondence", "go harness p2p (concurrent)", out2[-1500:])
    for c in conc:
        for m in (c.get("mon") or [])[:3]:
            k = mon_key(m) + ":concurrent"
            if k not in seen:
                seen[k] = 1
                ctx.problem("monitor", m, "observed under concurrent calls", concrete=True, replay={"test": "TestVerifC03Conc", "seed": ctx.seed, "summary": c}, key=k)
        ctx.cov["p2p_concurrent"] = {k: v for k, v in c.items() if k != "mon"}
    # ---- coverage
    kinds, res = {}, {}
    for h in rows:
        for o, s in zip(h["ops"], h["steps"]):
            note = o.get("note", "")
            if note.startswith("cap-"):
                note = "cap-*"
            k = o["k"] + (":" + note if note else "")
            kinds[k] = kinds.get(k, 0) + 1
            r = o["k"] + "->" + str(s["res"])
            res[r] = res.get(r, 0) + 1
    ctx.cov["p2p_op_kind_hist"] = kinds
    ctx.cov["p2p_result_hist"] = res
    ctx.cov["p2p_histories"] = len(rows)
    ctx.cov["p2p_ops_total"] = sum(len(h["ops"]) for h in rows)
    ctx.cov["p2p_max_row_seen"] = max((s["max"] for h in rows for s in h["steps"]), default=0)
    ctx.cov["p2p_set_size_hist"] = {}
    for h in rows:
        n = h.get("shape", "").split(" ")[0]
        ctx.cov["p2p_set_size_hist"][n] = ctx.cov["p2p_set_size_hist"].get(n, 0) + 1
    return rows


# ------------------------------------------------------------------ the REAL receive / dispatch loop of p2p.Run (extension X5)
RUN_HDR = ("From Coq Require Import Uint63.\nFrom Coq Require Import List ZArith Bool Arith Strings.Byte.\n"
           "From WH Require Import lib.Bytes lib.Wire gen.Extracted gen.ExtractedP2P model.Vaa model.P2PVerify lib.P2PWire lib.P2PRunWire.\n"
           "Import ListNotations.\nOpen Scope Z_scope.\n")


def gmsg_run(o):
    k = o.get("kind")
    if k == "invalid":
        return "MInvalid"
    if k == "unknown":
        return "MUnknown"
    if k == "hb":
        return "(MHeartbeat %s %s %s)" % (B(o.get("addr")), B(o.get("payload")), B(o.get("sig")))
    if k == "req":
        return "(MObsReq %s %s %s)" % (B(o.get("addr")), B(o.get("payload")), B(o.get("sig")))
    if k == "obs":
        return "(MObservation %s)" % B(o.get("id"))
    if k == "vaa":
        return "(MSignedVaa %s)" % B(o.get("id"))
    raise ValueError(k)


def gevent_run(h, o):
    k = o["k"]
    if k == "set":
        return "(LSetGS %s)" % core.glist(B(x) for x in o.get("keys", []))
    if k == "recv":
        return "(LRecv %s %s)" % (B(o["from"]), gmsg_run(o))
    if k == "lsend":       # published by the node itself: comes back with the node's own peer id
        return "(LRecv %s %s)" % (B(h["self"]), gmsg_run(o))
    if k == "lreq":
        return "(LLocalReq %s)" % B(o.get("payload"))
    raise ValueError(k)


def grun(h, pre=None):
    kec, rec = h["keccak"] or [], h["rec"] or []
    if pre is not None:
        want = set()
        for o in h["ops"]:
            if o.get("kind") == "hb":
                want.add(pre[0] + o.get("payload", ""))
            elif o.get("kind") == "req":
                want.add(pre[1] + o.get("payload", ""))
        kec = [(a, b) for a, b in kec if a in want]
        dg = {b for _, b in kec}
        rec = [(a, b, c) for a, b, c in rec if a in dg]
    kc = core.glist("(%s, %s)" % (B(a), B(b)) for a, b in kec)
    rc = core.glist("(%s, %s, %s)" % (B(a), B(b), "Some %s" % B(c) if c else "None") for a, b, c in rec)
    dh = core.glist("(%s, %s)" % (B(a), ("Some %s" % core.gz(b)) if b != "" else "None") for a, b in (h["dechb"] or []))
    dr = core.glist("(%s, %s)" % (B(a), core.gbool(b == "1")) for a, b in (h["decreq"] or []))
    evs = core.glist(gevent_run(h, o) for o in h["ops"])
    ex = core.glist("([%d;%d;%d]%%uint63, %s)" % (s["th"], s["ne"], s["na"], core.glist("(%d, %s)" % (int(c), B(i)) for c, i in s["outs"])) for s in h["steps"])
    return ("{| pr_keccak := %s; pr_rec := %s; pr_dechb := %s; pr_decreq := %s; pr_disable := %s; pr_self := %s; pr_thr := %s; pr_evs := %s; pr_expect := %s |}"
            % (kc, rc, dh, dr, core.gbool(h["disable"]), B(h["self"]), core.gz(h["thr"]), evs, ex))


def describe_run(h, step):
    return {"harness": "p2p_run (real p2p.Run loop over TCP)", "history": h["id"], "shape": h.get("shape"), "disableHeartbeatVerify": h["disable"],
            "self_peer": h["self"], "own_guardian_address": h["ouraddr"], "ops": h["ops"][:step + 1],
            "impl_steps": h["steps"][:step + 1]}


def run_mon_key(m):
    for pre, k in (("loopback:", "loop:loopback-effect"), ("envelope had an effect", "loop:ignored-envelope-effect"), ("pass-through:", "loop:pass-through"),
                   ("observation request forwarded", "loop:request-unauthenticated-forward"), ("observation-request envelope had another effect", "loop:request-other-effect"),
                   ("forwarded request differs", "loop:request-altered"), ("heartbeat had an effect", "loop:heartbeat-unauthenticated-effect"),
                   ("heartbeat envelope produced", "loop:heartbeat-channel-output"), ("accepted heartbeat of signer", "loop:heartbeat-stored-elsewhere"),
                   ("local observation request", "loop:local-request-delivery"), ("cap:", "loop:cap"),
                   ("loop-exit:", "loop:run-exited"), ("after G's own heartbeat", "loop:own-heartbeat-table"), ("G's own heartbeat produced", "loop:own-heartbeat-output")):
        if m.startswith(pre):
            return k
    return "loop:" + m[:40]


def loop_half(ctx, st):
    """harness/p2p_run: the working tree's p2p.Run (QUIC -> TCP, nothing else changed) driven by two gossipsub peers"""
    rc, out, trace = core.harness_pkg(ctx, "p2p_run", "^TestVerifC03Run$", timeout=2400, race=(ctx.tier == "thorough"), env=dict(overlay.TCP_ENV))
    allrows = core.read_jsonl(trace)
    rows = [r for r in allrows if r.get("k") == "run"]
    if rc != 0 or not rows:
        ctx.problem("machinery", "go harness p2p_run (real p2p.Run loop)", out[-2500:])
        return None
    for r in allrows:
        if r.get("k") == "metrics":
            ctx.cov["loop_received_counter_by_label"] = r.get("received")
    good = []
    for h in rows:
        if h.get("fatal") or h.get("timeout"):
            # the harness already retried the whole scenario once: a delivery deadline (>= 25 s each) is a machinery problem, never a violation
            ctx.problem("machinery", "real-loop scenario %s did not complete (second attempt)" % h["id"],
                        "%s%s; first attempt: %s" % (h.get("timeout") or "", h.get("fatal") or "", (h.get("extra") or {}).get("first_attempt")))
            continue
        if h.get("exited") and not any(m.startswith("loop-exit") for s_ in h["steps"] for m in (s_.get("mon") or [])):
            ctx.problem("machinery", "p2p.Run exited outside the dispatch of an envelope (history %s)" % h["id"], h.get("exited"))
            continue
        good.append(h)
    # ---- monitors (evaluated in Go with direct crypto and hard-coded prefixes on what the real loop did)
    seen = {}
    nmon = 0
    for h in good:
        for i, s in enumerate(h["steps"]):
            for m in (s.get("mon") or []):
                nmon += 1
                k = run_mon_key(m)
                if k in seen:
                    continue
                seen[k] = 1
                if len(seen) <= 6:
                    ctx.problem("monitor", m, "observed on the real p2p.Run loop (history %d step %d, op %s %s)" % (h["id"], i, h["ops"][i]["k"], h["ops"][i].get("note", "")),
                                concrete=True, replay=describe_run(h, i), key=k)
        for m in (h.get("pub_mon") or []):
            nmon += 1
            k = run_mon_key(m)
            if k in seen:
                continue
            seen[k] = 1
            if k.startswith("loop:own-heartbeat"):
                ctx.problem("monitor", m, "observed on the real p2p.Run loop after the node's own periodic heartbeat (history %d)" % h["id"],
                            concrete=True, replay=describe_run(h, len(h["ops"]) - 1), key=k)
            else:   # sender side (what the node publishes): outside the property's statement, reported as a tie problem
                ctx.problem("correspondence", "what p2p.Run publishes is not what the verifiers of the other guardians accept", m,
                            concrete=False, replay={"history": h["id"], "published": h.get("pubs")})
    ctx.cov["loop_monitor_messages"] = nmon
    # ---- model vs the real loop, inside Coq
    info = (st.get("p2p_verify") or {}).get("info") or {}
    pre = (info["hb_pre_hex"], info["req_pre_hex"]) if ("hb_pre_hex" in info and "req_pre_hex" in info) else None
    cmpable = [h for h in good if not h.get("exited")]   # a history cut short by an exit of Run is judged by the monitor only
    if cmpable:
        # the model state threads through a history: one generated file per history
        texts = [RUN_HDR + "Definition cases : list p2run := [%s].\nDefinition M := Eval vm_compute in map check_p2run cases.\nPrint M.\n" % grun(h, pre) for h in cmpable]
        res = core.coq_eval_many(ctx, "cases_C03r", texts, timeout=1500)
        nbad = 0
        for h, (ok, o) in zip(cmpable, res):
            m = core.parse_print(o, "M")
            vals = core.zlist(m) if (ok and m is not None) else None
            if not vals or len(vals) != 1:
                ctx.problem("correspondence", "cases_C03r evaluation", o[-800:])
                continue
            stp = vals[0]
            if stp >= 0:
                nbad += 1
                if nbad <= 3:
                    op = h["ops"][stp] if stp < len(h["ops"]) else {}
                    s = h["steps"][stp] if stp < len(h["steps"]) else {}
                    ctx.problem("correspondence", "model P2PVerify.loop_run differs from the real p2p.Run dispatch loop",
                                "history %d step %d op=%s kind=%s note=%s impl outs=%s entries=%s" % (h["id"], stp, op.get("k"), op.get("kind"), op.get("note"), s.get("outs"), s.get("ne")),
                                concrete=False, replay=describe_run(h, stp))
        ctx.cov["loop_histories_validated_against_impl"] = len(cmpable)
        ctx.cov["loop_mismatches"] = nbad
    # ---- coverage
    kinds, eff = {}, {}
    for h in good:
        prev = (0, 0)
        for o, s in zip(h["ops"], h["steps"]):
            note = o.get("note", "")
            k = o["k"] + ":" + (o.get("kind") or "") + (":" + note.split(":")[1] if o.get("kind") in ("hb", "req") and note.count(":") >= 1 else "")
            kinds[k] = kinds.get(k, 0) + 1
            e = "%s:%s -> %s%s" % (o["k"], o.get("kind") or "-", "table " if (s["th"], s["ne"]) != prev else "", "chan" + "".join(sorted({c for c, _ in s["outs"]})) if s["outs"] else "")
            eff[e.strip()] = eff.get(e.strip(), 0) + 1
            prev = (s["th"], s["ne"])
    ctx.cov["loop_event_kind_hist"] = kinds
    ctx.cov["loop_effect_hist"] = eff
    ctx.cov["loop_histories"] = len(good)
    ctx.cov["loop_events_total"] = sum(len(h["ops"]) for h in good)
    ctx.cov["loop_published_by_node"] = sorted({p.split(" ")[0] for h in good for p in (h.get("pubs") or [])})
    ctx.cov["loop_timing_ms"] = [{"id": h["id"], "mesh": h["mesh_ms"], "history": h["hist_ms"], "own_heartbeat_wait": h["ownhb_ms"], "attempt": h["attempt"]} for h in good]
    return good


# ------------------------------------------------------------------ observation half: monitor over the processor histories
def to_address(hexs):
    b = bytes.fromhex(hexs or "")
    if len(b) > 20:
        b = b[len(b) - 20:]
    return (b"\0" * (20 - len(b)) + b).hex()


def obs_monitor(ctx, rows):
    """every Obs step whose observation is not (signature recovers to the claimed address, member of the applicable set) must leave
    state hash and entry count unchanged and produce no output.  Validity is recomputed here from the harness's direct
    crypto table and the implementation's own state dump (snapshot index per digest) — not from the Gallina model."""
    checked = invalid = 0
    reported = 0
    for h in rows:
        for m in (h.get("mon") or []):
            if m.startswith("C03"):
                if reported < 3:
                    ctx.problem("monitor", m, "processor harness monitor, history %s" % h["id"], concrete=True,
                                replay=proc_common.describe(h), key="obs:harness-monitor")
                reported += 1
        rec = {(a, b): c for a, b, c in h["rec"]}
        sets_by_idx = {}
        cur = None
        prev = None
        for i, (o, s) in enumerate(zip(h["ops"], h["steps"])):
            if o["k"] == "setgs":
                cur = [k.lower() for k in o.get("keys", [])]
                sets_by_idx.setdefault(o.get("idx", 0), []).append(cur)
            if o["k"] == "obs" and prev is not None and not s.get("panic"):
                checked += 1
                a = rec.get((o.get("hash", ""), o.get("sig", "")))
                claimed = to_address(o.get("addr", ""))
                # applicable set: the snapshot index the implementation shows for this digest before the call, else the current set
                cands = None
                for line in prev.get("state", []) or []:
                    if line.split(" ")[0] == o.get("hash", "")[:16]:
                        f = dict(x.split("=", 1) for x in line.split(" ")[1:] if "=" in x)
                        g = f.get("gs", "false")
                        if g.startswith("true/"):
                            cands = sets_by_idx.get(int(g.split("/")[1]), [])
                if cands is None:
                    cands = [cur] if cur is not None else []
                valid = bool(a) and a.lower() == claimed and any(claimed in c for c in cands)
                if not valid:
                    invalid += 1
                    if s["sh"] != prev["sh"] or s["ne"] != prev["ne"] or s["outs"]:
                        why = ("signature does not recover" if not a else
                               "recovers to %s, claims %s" % (a, claimed) if a.lower() != claimed else "address %s not in the applicable guardian set" % claimed)
                        if reported < 3:
                            ctx.problem("monitor", "an observation that is not a valid member signature changed the processor state or produced output (%s)" % why,
                                        "history %s step %d note=%s outs=%s entries %s->%s" % (h["id"], i, o.get("note"), s["outs"], prev["ne"], s["ne"]),
                                        concrete=True, replay=proc_common.describe(h, i), key="obs:unauthenticated-effect")
                        reported += 1
            prev = s
    ctx.cov["obs_steps_checked"] = checked
    ctx.cov["obs_steps_invalid_and_dropped"] = invalid
    return checked


def run(ctx):
    st = core.run_extract(ctx, ["p2p_verify", "gst_table", "obs_guards", "p2p_loop", "processor_consts", "quorum_go", "vaa_consts"])
    core.coq_prove(ctx, "C03", extra_targets=["lib/P2PWire.vo", "lib/P2PRunWire.vo", "lib/ProcWire.vo"])
    if ctx.tier == "thorough":
        core.coq_thorough_audit(ctx, "C03")
    # ---- p2p half
    prow = p2p_half(ctx, st)
    # ---- the real receive / dispatch loop of p2p.Run
    lrow = loop_half(ctx, st)
    # ---- observation half on the processor harness
    rows = proc_common.run_harness(ctx)
    if rows is not None:
        proc_common.coverage(ctx, rows)
        obs_monitor(ctx, rows)
        bad = proc_common.compare_with_model(ctx, rows, "cases_C03")
        if bad is not None:
            for i, stp in bad[:3]:
                h = rows[i]
                o = h["ops"][stp] if stp < len(h["ops"]) else {}
                ctx.problem("correspondence", "model Processor differs from the processor handlers",
                            "history %s step %d op=%s note=%s" % (h["id"], stp, o.get("k"), o.get("note")), concrete=False, replay=proc_common.describe(h, stp))
            ctx.cov["proc_histories_validated_against_impl"] = len(rows)
            ctx.cov["proc_mismatches"] = len(bad)
    # ---- summary numbers
    nproc = len(rows or [])
    npp = len(prow or [])
    nloop = len(lrow or [])
    ctx.evaluations = nproc + npp + nloop
    dist = set()
    for h in prow or []:
        for o, s in zip(h["ops"], h["steps"]):
            if o["k"] in ("hb", "req"):
                dist.add((o["k"], o.get("addr"), o.get("payload"), o.get("sig"), o.get("disable", False)))
    nobs = set()
    for h in rows or []:
        for o in h["ops"]:
            if o["k"] == "obs":
                nobs.add((o.get("addr"), o.get("hash"), o.get("sig")))
    ldist = set()
    for h in lrow or []:
        for o in h["ops"]:
            if o["k"] in ("recv", "lsend"):
                ldist.add((o["k"], o.get("from"), o.get("data")))
    ctx.distinct = len(dist) + len(nobs) + len(ldist)
    ctx.rule = ("p2p: seeded histories over guardian sets of 1..19 keys (two sets A/B with members dropped and added, switched back and forth, one with a repeated key): "
                "validly signed heartbeats / requests (real secp256k1) and 24 single mutations of each (payload / signature / address bit flips, recid, lengths, "
                "outsider, outsider with member address, member with another member's address, other type's prefix, no prefix, prefix without separator, "
                "observation-style signature, signed lengths 31..35, the 32-byte pre-image shared with an observation digest, padded / truncated address, "
                "signed garbage, empty fields, cross-type replay, zero signature), messages before any set is known, the devnet no-verify flag, "
                "own heartbeats, cleanup at virtual ages around 60 s, 13..19 peers for one guardian, extreme timestamps; "
                "processor: the C01/C02 histories incl. forged / non-member / wrong-address / other-digest / malformed observations around set changes. "
                "real loop (p2p.Run over TCP, two gossipsub peers): per node a seeded history in four phases (no set / set A / set B with members dropped and added / A again) of "
                "valid and 20 single mutations of signed heartbeats and requests (incl. decodable payloads of exactly 32..35 signed bytes), observations, signed VAAs, undecodable bytes, "
                "unknown types, replays from the other peer, own-peer-id loopback of every kind through sendC, local requests through obsvReqSendC, one node with disableHeartbeatVerify; "
                "evaluations = histories; distinct = distinct (type, address, payload, signature) gossip messages + distinct observations + distinct (publisher, envelope bytes) of the real loop")
    ctx.samples = []
    for h in (prow or [])[:1]:
        ctx.samples.append({"p2p_history": h["id"], "shape": h.get("shape"),
                            "ops": [o["k"] + (":" + o["note"] if o.get("note") else "") + "->" + str(s["res"]) for o, s in zip(h["ops"], h["steps"])][:50]})
    for h in (lrow or [])[:1]:
        ctx.samples.append({"real_loop_history": h["id"], "shape": h.get("shape"),
                            "ops": [o["k"] + ":" + (o.get("kind") or "") + (":" + o["note"] if o.get("note") else "") + "->" + json.dumps(s["outs"]) for o, s in zip(h["ops"], h["steps"])][:40]})
    for h in (rows or [])[:1]:
        ctx.samples.append({"processor_history": h["id"], "shape": h.get("shape"),
                            "ops": [o["k"] + (":" + o["note"] if o.get("note") else "") for o in h["ops"]][:40]})
    ctx.assumptions = [
        "recover / keccak are arbitrary functions in every theorem; in the correspondence runs they are the finite tables of go-ethereum crypto.Ecrecover / Keccak256 results recorded by the harnesses through direct calls",
        "protobuf decoding of the inner Heartbeat / ObservationRequest is an oracle (arbitrary function in the theorems, recorded table of proto.Unmarshal results in the runs)",
        "that a signature accepted for one purpose is not ALSO a valid signature for another digest needs Keccak collision resistance and ECDSA unforgeability: the theorems show the signed byte strings differ and exhibit the collision that equal digests would be; exercised with real keys, not proved",
        "the receive / dispatch loop of p2p.Run is executed for real (harness p2p_run) from a copy of the working tree's p2p.go in which only the transport is changed (QUIC import / option / two listen addresses -> TCP on 127.0.0.1; go-libp2p's defaults.go loses its unused QUIC default): libp2p, gossipsub (message signing, validation, forwarding) and the DHT bootstrap are the real libraries and trusted; the per-envelope synchronisation relies on gossipsub delivering a validated message to the local subscription before forwarding it",
        "in the real-loop histories the node's own periodic heartbeat (15 s ticker) and the Cleanup ticker run asynchronously: the own entry (own guardian address, own peer id) is kept out of the compared table, test heartbeats carry Timestamps 10 days ahead so that Cleanup never removes them, and entries with a Timestamp less than 5 days ahead (signed garbage that happens to decode) are compared on neither side (their insertion is still seen by the monitor, their removal by the ticker ignored)",
        "Cleanup's clock: stored Timestamps are rewritten to real-now minus a whole-second virtual age right before the call (DESIGN section 4); steps whose rewrite-to-call latency exceeded 500 ms are discarded and counted",
    ]
