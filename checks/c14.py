"""C14 — pending attestations are retried, then expired, on a bounded schedule."""
import core
import proc_common as P

def run(ctx):
    rows = P.pipeline(ctx, "C14")
    if rows is None:
        return
    ticks = sum(1 for h in rows for o in h["ops"] if o["k"] == "cleanup")
    retries = sum(1 for h in rows for s in h["steps"] for x in s["outs"] if x.startswith("obsreq "))
    ctx.cov["cleanup_ticks"] = ticks
    ctx.cov["retries_observed"] = retries
    drops = 0
    for h in rows:
        prev = None
        for o, s in zip(h["ops"], h["steps"]):
            if o["k"] == "cleanup" and prev is not None and s["ne"] < prev:
                drops += prev - s["ne"]
            prev = s["ne"]
    ctx.cov["entries_removed_by_ticks"] = drops
    ctx.rule = ("generated + scripted histories in which cleanup ticks arrive with the virtual clock advanced by 1, 29, 30, 31, 269, 299, 300, 301, 3300, 3601 s, 86400 s (instants of the real entries rewritten "
                "to now-age right before the real handleCleanup); per-entry monitor: retry not before 5 min of age nor within 5 min of the previous one, due retry performed, pending own entry never discarded "
                "below its budget unless its VAA is stored, unobserved entries gone past 5 min, completed ones past 1 h; evaluations = histories; distinct non-trivial = distinct op sequences with outputs")
    ctx.assumptions = P.COMMON_ASSUMPTIONS + [
        "ticks are delivered by a time.Ticker of the extracted period (30 s); the 5 min 30 s bound on the retry period assumes no tick is late by more than the period; long stalls only delay, never discard (theorem C14_pending_own_entry_is_kept holds for every instant)",
        "the re-observation request is posted without blocking and is lost when the outbound queue is full (C17); the harness keeps that queue drained"]
    # extension X7: the re-observation loop end to end (real cleanup -> real dispatcher, composed model, cadence / amplification / budget monitors)
    if not ctx.replay:
        import loop_common
        loop_common.run(ctx, "C14")
