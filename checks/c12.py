"""C12 — stored VAAs come back byte-exact and emitter queries never mix streams."""
import os
import core
from dbgroup_common import run_cases_retry, coq_prove_retry
from vaa_common import gvaa
from c04 import hist

HDR = ("From Coq Require Import Uint63.\nFrom Coq Require Import List ZArith Bool Arith Strings.Byte.\n"
       "From WH Require Import lib.Bytes lib.Wire gen.Extracted model.Vaa model.Db model.DbRun.\n"
       "Import ListNotations.\nOpen Scope Z_scope.\n")


class Unrep(Exception):
    """an answer of the implementation that cannot be expressed as an expectation for the comparator (already a mismatch)"""


def intervals(l):
    """strictly increasing runs of a number list as inclusive intervals (any list is representable: runs of length 1)"""
    out = []
    for x in l:
        if out and out[-1][1] + 1 == x:
            out[-1][1] = x
        else:
            out.append([x, x])
    return "[" + "; ".join("(%d, %d)" % (a, b) for a, b in out) + "]"


def op_bytes(o):
    return o.get("b") or o.get("mb") or ""


def op_index(r, hexbytes):
    """index of the (latest) operation of the history whose Marshal output is exactly these bytes"""
    m = r.get("_byval")
    if m is None:
        m = {}
        for j, o in enumerate(r["ops"]):
            if not o.get("panic"):
                m[op_bytes(o)] = j
        r["_byval"] = m
    j = m.get(hexbytes)
    if j is None:
        raise Unrep("returned bytes %s... are not the Marshal output of any VAA stored in this history" % hexbytes[:40])
    return j


def gents(r, q):
    return core.glist("(%d, %d, %d%%nat)" % (e.get("tc", 0), e["sq"], op_index(r, e["b"])) for e in q.get("ents", []))


def gop(o):
    if o.get("b"):
        return "St (B %s)" % core.gbytes(o["b"])
    return "StV %s (B %s) %s" % (gvaa(o["v"]), core.gbytes(o.get("mb", "")), core.gbool(o.get("panic", False)))


def gseqs(q):
    return core.glist(str(x) for x in q.get("seqs", []))


def split_ids(ids):
    """FindMissingMessages renders "<ec>/<addr>/<tc>/<seq>": common prefix up to the last '/', and the numbers"""
    pre, nums = None, []
    for s in ids:
        a, sep, b = s.rpartition("/")
        if not sep or not b.isdigit() or str(int(b)) != b or (pre is not None and a + "/" != pre):
            raise Unrep("missing-message id %r does not have the shape <prefix>/<decimal> shared by the whole answer" % s)
        pre = a + "/"
        nums.append(int(b))
    return (pre or ""), nums


def gquery(r, q):
    h, pool = r["h"], r["pool"]
    t, code = q["t"], q["code"]
    j = op_index(r, q["b"]) if (t == "get" and code == 0) else 0
    if h == "db":
        if t == "get":
            return "QGet %d %d%%nat %d %d %d %d%%nat" % (q["ec"], q["ai"], q["tc"], q["sq"], code, j)
        if t == "gap":
            return "QGap %d %d%%nat %d %d %s %d %d" % (q["ec"], q["ai"], q["tc"], code, intervals(q.get("resp") or []), q["first"], q["last"])
        if t == "gov":
            return "QGov %d %d%%nat %s %d %s" % (q["ec"], q["ai"], gseqs(q), code, gents(r, q))
        return "QBatch %d %d%%nat %d %s %d %s" % (q["ec"], q["ai"], q["tc"], gseqs(q), code, gents(r, q))
    ahex = q.get("ahex", "")
    ahex = "" if ahex == "-" else (ahex or pool[q["ai"]])
    ab = "(B %s)" % core.gbytes(ahex.encode().hex())
    if t == "get":
        return "QRpcGet %d %s %d %d %d %d%%nat" % (q["ec"], ab, q["tc"], q["sq"], code, j)
    if t == "batch":
        return "QRpcBatch %d %s %d %s %d %s" % (q["ec"], ab, q["tc"], gseqs(q), code, gents(r, q))
    if t == "gov":
        return "QRpcGov %d %d%%nat %s %d %s" % (q["ec"], q["ai"], gseqs(q), code, gents(r, q))
    pre, nums = split_ids(q.get("ids") or [])
    return "QMissing %d %s %d %d (B %s) %s %d %d" % (q["ec"], ab, q["tc"], code, core.gbytes(pre.encode().hex()), intervals(nums), q["first"], q["last"])


def gcase(r):
    qs = []
    for qi, q in enumerate(r["q"]):
        try:
            qs.append(gquery(r, q))
        except Unrep as e:
            r.setdefault("_unrep", []).append((qi, str(e)))
            qs.append("QGet 0 0%nat 0 0 9 0%nat")   # never answered with code 9: counted as a mismatch of this query
    return "(%s, %s, %s)" % (core.glist("B " + core.gbytes(a) for a in r["pool"]), core.glist(gop(o) for o in r["ops"]), core.glist(qs))


def replay_of(r, qi, msg=None):
    d = {"harness": r["h"], "store_index": r["idx"], "theme": r["theme"], "pool": r["pool"], "ops": r["ops"]}
    if qi is not None and 0 <= qi < len(r["q"]):
        d["query"] = r["q"][qi]
    if msg:
        d["monitor"] = msg
    if r.get("pre"):
        d["pre"] = r["pre"]
        d["q1"] = [{k: v for k, v in q.items() if k in ("t", "ec", "ai", "ahex", "tc", "sq", "seqs")} for q in r.get("q1", [])]
    return d


def same_generator(ctx):
    a = open(os.path.join(core.VERIF, "harness/db/zz_verif_c12_gen_test.go")).read()
    b = open(os.path.join(core.VERIF, "harness/guardiand_db/zz_verif_c12_gen_test.go")).read()
    if a.replace("package db\n", "package guardiand\n", 1) != b:
        ctx.problem("machinery", "harness generator copies differ", "harness/db/zz_verif_c12_gen_test.go vs harness/guardiand_db/zz_verif_c12_gen_test.go")


def concurrent_users(ctx):
    """one handle used by writers and readers at once (processor stores, gRPC lookups): every lookup against the harness's own record"""
    rc, out, trace = core.harness_pkg(ctx, "db", "^TestVerifC12Conc$", timeout=1200, race=(ctx.tier == "thorough"))
    rows = [r for r in core.read_jsonl(trace) if r.get("k") == "c12conc"]
    if "DATA RACE" in out:
        i = out.index("DATA RACE")
        ctx.problem("monitor", "the race detector reports a data race between concurrent users of the store", out[max(0, i - 50):i + 1500], concrete=True,
                    replay={"race_report": out[max(0, i - 50):i + 3000]}, key="conc:race")
        return
    if rc != 0 or not rows:
        ctx.problem("correspondence", "go harness C12 (concurrent users of one handle)", out[-1500:])
        return
    r = rows[0]
    ctx.cov["concurrent_users"] = {k: v for k, v in r.items() if k not in ("k", "mon")}
    seen = set()
    for m in r.get("mon") or []:
        k = "conc:" + ("never-stored" if "never-stored" in m else "end" if "after the concurrent phase" in m else "lookup")
        if k in seen:
            continue
        seen.add(k)
        ctx.problem("monitor", m, "observed on the real store (%d writers, %d readers, one handle)" % (r.get("writers", 0), r.get("readers", 0)), concrete=True,
                    replay={"monitor": m, "test": "TestVerifC12Conc", "seed": ctx.seed}, key=k)


def run(ctx):
    core.run_extract(ctx, ["db_keys", "vaa_consts"])
    coq_prove_retry(ctx, "C12", extra_targets=["model/DbRun.vo"])
    if ctx.tier == "thorough":
        core.coq_thorough_audit(ctx, "C12")
    same_generator(ctx)
    env = {"VERIF_REPLAY": os.path.abspath(ctx.replay)} if ctx.replay else None
    if not ctx.replay:
        concurrent_users(ctx)
    rows = []
    for key, rx, label in (("db", "^TestVerifC12$", "db"), ("guardiand_db", "^TestVerifC12Rpc$", "rpc")):
        rc, out, trace = core.harness_pkg(ctx, key, rx, env=env, timeout=1800)
        rs = core.read_jsonl(trace)
        if rc != 0 or (not rs and not ctx.replay):
            ctx.problem("correspondence", "go harness C12 (%s)" % label, out[-1500:])
            return
        rows += rs
    nq = sum(len(r["q"]) for r in rows)
    ctx.evaluations = nq
    ctx.distinct = sum(len({(q["t"], q["ec"], q["ai"], q.get("ahex", ""), q["tc"], q["sq"], tuple(q.get("seqs", []))) for q in r["q"]}) for r in rows if r["ops"])
    ctx.rule = ("random multisets of signed VAAs (chain ids 1,2,4,10..17,42,255,10001; related address pool; overlapping small sequence ranges, pairs that collide "
                "when a separator is lost, boundary 64-bit sequences, overwrites, undecodable / unsigned VAAs) stored in real badger stores, then every query kind: "
                "lookup (stored ids + near misses), gap scan of every stream present and of the streams whose rendering extends / prefixes it, governance batch, "
                "plain batch; the same through PublicrpcServer and FindMissingMessages incl. malformed addresses, wrapped chain numbers, oversize batches; "
                "distinct by (store, query); non-trivial = store not empty")
    ctx.cov["stores"] = len(rows)
    ctx.cov["stored_vaas"] = sum(len(r["ops"]) for r in rows)
    ctx.cov["theme_hist"] = {}
    ctx.cov["query_kind_hist"] = {}
    ctx.cov["result_code_hist"] = {}
    for r in rows:
        ctx.cov["theme_hist"][r["theme"]] = ctx.cov["theme_hist"].get(r["theme"], 0) + 1
        for q in r["q"]:
            k = r["h"] + ":" + q["t"]
            ctx.cov["query_kind_hist"][k] = ctx.cov["query_kind_hist"].get(k, 0) + 1
            ctx.cov["result_code_hist"][str(q["code"])] = ctx.cov["result_code_hist"].get(str(q["code"]), 0) + 1
    ctx.cov["store_size_hist"] = hist([len(r["ops"]) for r in rows], [1, 10, 20, 40, 80])
    ctx.cov["gap_len_hist"] = hist([len(q.get("resp", q.get("ids", []))) for r in rows for q in r["q"] if q["t"] == "gap"], [0, 1, 10, 100, 1000, 20000])
    ctx.samples = [{"harness": r["h"], "theme": r["theme"], "nvaas": len(r["ops"]), "query": {k: (v[:12] if isinstance(v, list) else v) for k, v in r["q"][j].items() if k not in ("b", "ents") and v not in ("", None)}}
                   for r in rows[:4] for j in (0, len(r["q"]) // 2) if r["q"]]
    # monitors evaluated by the harness on the implementation (reference = the statement on what was stored)
    seen = {}
    nmon = 0
    for r in rows:
        for m, qi in zip(r["mon"], r["monq"]):
            nmon += 1
            q = r["q"][qi] if 0 <= qi < len(r["q"]) else None
            k = "store" if q is None else ("panic" if q["code"] == 4 else r["h"] + ":" + q["t"])
            if k in seen:
                continue
            seen[k] = 1
            ctx.problem("monitor", m, "observed on the implementation (%s harness, store %d, %d VAAs)" % (r["h"], r["idx"], len(r["ops"])),
                        concrete=True, replay=replay_of(r, qi, m), key=k)
    ctx.cov["monitor_failures"] = nmon
    # model vs implementation: every store history replayed on the model, every answer compared
    bad = run_cases_retry(ctx, "cases_C12", rows, HDR, "dcase", gcase, "(* ok : dcase -> bool is WH.model.DbRun.ok *)", ["model/DbRun.vo"],
                          weight=lambda r: 130 * len(r["ops"]) + 40 * len(r["q"]) + sum(len(q.get("resp") or q.get("ids") or []) for q in r["q"]))
    if bad is None:
        return
    for i in bad[:3]:
        r = rows[i]
        text = HDR + "Definition c : dcase := %s.\nDefinition M := Eval vm_compute in bad_queries c.\nPrint M.\n" % gcase(r)
        ok, o = core.coq_eval(ctx, "cases_C12_diag_%d" % i, text)
        m = core.parse_print(o, "M")
        qs = core.zlist(m) if (ok and m is not None) else []
        qi = qs[0] - 1 if qs and qs[0] > 0 else None
        unrep = dict(r.get("_unrep", []))
        if qs[:1] == [0]:
            what = "store history not reproduced (a StoreSignedVAA outcome or the stored bytes differ)"
        elif qi is not None:
            what = "query %s" % {k: v for k, v in r["q"][qi].items() if k not in ("b", "ents", "resp", "ids")}
            if qi in unrep:
                what += " — " + unrep[qi]
        else:
            what = "?"
        ctx.problem("correspondence", "model (Db.v) differs from the implementation", "%s harness, store %d (%s): %s; %d differing answers" % (r["h"], r["idx"], r["theme"], what, len(qs)),
                    concrete=False, replay=replay_of(r, qi))
    ctx.cov["traces_validated_against_impl"] = len(rows)
    ctx.cov["answers_validated_against_impl"] = nq
    ctx.cov["mismatches"] = len(bad)
    ctx.assumptions = ["badger's iterator returns the live keys in bytewise order, Seek/ValidForPrefix/Next and Get/Set behave as on an ordered map (engine contract: the model's store; exercised on real badger stores by the harness, not proved)",
                       "identifiers are the Go types' values: chain ids < 2^16, 32-byte address, sequence < 2^64; RPC requests with chain numbers >= 2^16 are outside the property (the uint16 conversion wraps; modelled as mod 65536 and compared with the implementation)",
                       "a stream containing sequence 2^64-1 is excluded from the gap theorem (the Go loop `i <= lastSeq` cannot terminate; proved to be exactly that case: C12_gap_loop_excluded_input); such stores are only queried by lookups and batches",
                       "stored values are Marshal outputs of representable signed VAAs (theorem hypothesis `Forall wf vs`): an undecodable value (empty payload, other version) inside the scanned stream makes the gap scan fail (compared with the model only)"]
