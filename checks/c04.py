"""C04 — signing digest deterministic, injective, same layout in Go / Solidity / Ralph."""
import core, re
from vaa_common import HDR, gvaa, monitor_rows

def run(ctx):
    core.run_extract(ctx, ["vaa_consts", "sol_parsevm", "ral_parsevaa"])
    core.coq_prove(ctx, "C04")
    if ctx.tier == "thorough":
        core.coq_thorough_audit(ctx, "C04")
    rc, out, trace = core.harness_pkg(ctx, "vaa", "^TestVerifC04$")
    rows = core.read_jsonl(trace)
    if rc != 0 or not rows:
        ctx.problem("correspondence", "go harness C04", out[-1500:])
        return
    ctx.evaluations = len(rows)
    ctx.distinct = len({r["body"] for r in rows if len(r["payload"]) > 0})
    ctx.rule = ("random VAAs from VERIF_SEED with boundary field values, timestamps before 1970 / beyond 2106 / with sub-second parts, "
                "payload lengths incl. 999/1000/1001/4096, 0..255 signatures; distinct by signing body, non-trivial = non-empty payload")
    ctx.cov["payload_len_hist"] = hist([len(r["payload"]) // 2 for r in rows], [0, 1, 100, 1000, 1001, 5000])
    ctx.cov["nsig_hist"] = hist([len(r["sigs"]) for r in rows], [0, 1, 5, 20, 255])
    ctx.samples = [{k: (v if len(str(v)) < 90 else str(v)[:80] + "...") for k, v in r.items() if k != "mon"} for r in rows[:2]]
    monitor_rows(ctx, rows, lambda r, m: "mon:" + m, lambda r, m: {"vaa": {k: r[k] for k in r if k not in ("mon",)}, "monitor": m})
    # model vs implementation: body and marshal computed by the Gallina model on the same field values
    bad = core.run_cases(ctx, "cases_C04", rows, HDR, "vaa * Z * Z",
                         lambda r: "(%s, %d, %d)" % (gvaa(r), core.hash_bytes(r["body"]), core.hash_bytes(r["marshal"])),
                         "Definition ok (c : vaa * Z * Z) : bool := let '(v, b, m) := c in (hash_bytes (body v) =? b) && (hash_bytes (marshal v) =? m).",
                         weight=lambda r: len(r["payload"]) // 2 + 66 * len(r["sigs"]))
    if bad is None:
        return
    nb = len(rows)
    for i in bad[:3]:
        r = rows[i]
        ctx.problem("correspondence", "model body/marshal differs from SerializeBody/Marshal", "case %d" % i, concrete=False,
                    replay={"vaa": {k: r[k] for k in r if k != "mon"}})
    ctx.cov["traces_validated_against_impl"] = nb
    ctx.cov["mismatches"] = len(bad)
    ctx.assumptions = ["Keccak-256 is an uninterpreted function in the theorems; the harness checks SigningMsg = keccak(keccak(model body)) with x/crypto/sha3 called directly",
                       "contract sources are read (extracted layouts), not executed"]

def hist(vals, edges):
    h = {}
    for v in vals:
        lab = None
        for e in edges:
            if v <= e:
                lab = "<=%d" % e
                break
        if lab is None:
            lab = ">%d" % edges[-1]
        h[lab] = h.get(lab, 0) + 1
    return h
