"""C04 — signing digest deterministic, injective, same layout in Go / Solidity / Ralph."""
import core, re
from vaa_common import HDR, HDR_K, gvaa, monitor_rows

def run(ctx):
    core.run_extract(ctx, ["vaa_consts", "vaa_codec", "sol_parsevm", "ral_parsevaa", "signing_digest", "sha3_legacy_params"])
    core.coq_prove(ctx, "C04")
    if ctx.tier == "thorough":
        core.coq_thorough_audit(ctx, "C04")
    __import__("solverify_common").run(ctx, "C04")   # X12: Messages.sol parseVM / verifySignatures / verifyVM translated in full vs the node, on real signatures
    rc, out, trace = core.harness_pkg(ctx, "vaa", "^TestVerifC04$")
    rows = core.read_jsonl(trace)
    if rc != 0 or not rows:
        ctx.problem("correspondence", "go harness C04", out[-1500:])
        return
    allrows = rows
    krows = [r for r in allrows if r.get("k") == "kk"]       # Keccak-256 alone: input / crypto.Keccak256(input)
    rows = [r for r in allrows if r.get("k") == "c04"]       # VAAs: fields / SerializeBody / Marshal / SigningMsg
    if not rows or not krows:
        ctx.problem("correspondence", "go harness C04", "no VAA rows or no keccak rows in the trace")
        return
    ctx.evaluations = len(rows) + len(krows)
    ctx.distinct = len({r["body"] for r in rows if len(r["payload"]) > 0}) + len({r["in"] for r in krows if r["n"] > 0})
    ctx.rule = ("random VAAs from VERIF_SEED with boundary field values, timestamps before 1970 / beyond 2106 / with sub-second parts, "
                "payload lengths incl. 999/1000/1001/4096, 0..255 signatures; distinct by signing body, non-trivial = non-empty payload; "
                "plus Keccak-256 inputs (known answers, lengths around 8/136/272/408/1088/4096, padding look-alikes, random up to 4 KiB), distinct by input, non-trivial = non-empty")
    ctx.cov["payload_len_hist"] = hist([len(r["payload"]) // 2 for r in rows], [0, 1, 100, 1000, 1001, 5000])
    ctx.cov["nsig_hist"] = hist([len(r["sigs"]) for r in rows], [0, 1, 5, 20, 255])
    ctx.cov["keccak_input_len_hist"] = hist([r["n"] for r in krows], [0, 135, 136, 137, 272, 1088, 4096])
    kinds = {}
    for r in krows:
        kinds[r["kind"]] = kinds.get(r["kind"], 0) + 1
    ctx.cov["keccak_rows_by_kind"] = kinds
    ctx.samples = [{k: (v if len(str(v)) < 90 else str(v)[:80] + "...") for k, v in r.items() if k != "mon"} for r in rows[:2] + krows[:1]]
    monitor_rows(ctx, allrows, lambda r, m: "mon:" + m,
                 lambda r, m: ({"vaa": {k: r[k] for k in r if k not in ("mon",)}, "monitor": m} if r.get("k") == "c04" else
                              {"concurrent_callers": r.get("workers"), "calls": r.get("calls"), "monitor": m} if r.get("k") == "conc" else
                              {"monitor": m, "test": "TestVerifC04 (long wire forms)", "seed": ctx.seed} if r.get("k") == "c04long" else
                              {"keccak_input": r["in"], "go_output": r["out"], "monitor": m}))
    ctx.cov["concurrent_digest_calls"] = sum(r.get("calls", 0) for r in allrows if r.get("k") == "conc")
    # model vs implementation: body and marshal computed by the Gallina model on the same field values, and the digest computed by the
    # Gallina Keccak-256 (lib/Keccak.v) INSIDE Coq: digest keccak256 v must be the bytes the real (*VAA).SigningMsg() returned
    okdef = ("Definition ok (c : vaa * Z * Z * list byte) : bool := let '(v, b, m, d) := c in "
             "(hash_bytes (body v) =? b) && (hash_bytes (marshal v) =? m) && bytes_eqb (digest keccak256 v) d.")
    gcase = lambda r: "(%s, %d, %d, B %s)" % (gvaa(r), core.hash_bytes(r["body"]), core.hash_bytes(r["marshal"]), core.gbytes(r["digest"]))
    bad = core.run_cases(ctx, "cases_C04", rows, HDR_K, "vaa * Z * Z * list byte", gcase, okdef,
                         weight=lambda r: len(r["payload"]) // 2 + 66 * len(r["sigs"]) + 300)
    if bad is None:
        return
    nb = len(rows)
    for i in bad[:3]:
        r = rows[i]
        # which of the three comparisons failed (one small evaluation per reported case)
        what = "model body/marshal/digest differs from SerializeBody/Marshal/SigningMsg"
        okd, o = core.coq_eval(ctx, "cases_C04_diag", HDR_K + "Definition c := %s.\nDefinition D := Eval vm_compute in let '(v, b, m, d) := c in "
                               "[hash_bytes (body v) =? b; hash_bytes (marshal v) =? m; bytes_eqb (digest keccak256 v) d; bytes_eqb (keccak256 (body v)) d].\nPrint D.\n" % gcase(r))
        d = core.parse_print(o, "D") if okd else None
        if d:
            fl = re.findall(r'true|false', d)
            if len(fl) == 4:
                parts = []
                if fl[0] == "false":
                    parts.append("SerializeBody differs from the model body")
                if fl[1] == "false":
                    parts.append("Marshal differs from the model wire form")
                if fl[2] == "false":
                    parts.append("SigningMsg is not keccak256(keccak256(model body)) as computed by the Gallina Keccak-256"
                                 + (" (it is the SINGLE hash keccak256(body))" if fl[3] == "true" else ""))
                what = "; ".join(parts) or what
        ctx.problem("correspondence", what, "case %d" % i, concrete=False, replay={"vaa": {k: r[k] for k in r if k != "mon"}})
    ctx.cov["traces_validated_against_impl"] = nb
    ctx.cov["mismatches"] = len(bad)
    # Keccak-256 itself: the Gallina function against go-ethereum crypto.Keccak256 on every recorded input
    kbad = core.run_cases(ctx, "cases_C04k", krows, HDR_K, "list byte * list byte", lambda r: "(B %s, B %s)" % (core.gbytes(r["in"]), core.gbytes(r["out"])),
                          "Definition ok (c : list byte * list byte) : bool := bytes_eqb (keccak256 (fst c)) (snd c).",
                          weight=lambda r: r["n"] + 200)
    if kbad is None:
        return
    for i in kbad[:3]:
        r = krows[i]
        ctx.problem("correspondence", "Gallina keccak256 differs from crypto.Keccak256", "input of %d bytes (%s)" % (r["n"], r["kind"]), concrete=False,
                    replay={"keccak_input": r["in"], "go_output": r["out"]})
    ctx.cov["keccak_rows_validated_in_coq"] = len(krows)
    ctx.cov["keccak_mismatches"] = len(kbad)
    # the constants written into the Coq sources (Examples by vm_compute) are what the running Go code returns for the same inputs
    kat_check(ctx, rows, krows)
    # a contract-side body offset that no longer depends on the signature count alone: look for the VAA shape on which it disagrees with Go
    st = ctx.cov.get("extractors", {}).get("ral_parsevaa")
    if isinstance(st, str) and "body slice starts at" in st:
        import os
        try:
            src = open(os.path.join(core.REPO, "alephium/contracts/governance.ral")).read()
            m = re.search(r'let body = byteVecSlice!\(data, ([^,]+), size!\(data\)\)', src)
            expr = m.group(1)
            hit = None
            for n in range(1, 20):
                q = 2 * n // 3 + 1
                for k in range(q, n + 1):
                    env = {"signatureSize": k, "quorumSize": q, "guardianSize": n}
                    off = eval(re.sub(r'/', '//', expr), {"__builtins__": {}}, env)
                    if off != 6 + 66 * k and hit is None:
                        hit = (n, k, off)
            if hit:
                n, k, off = hit
                ctx.problem("monitor", "governance.ral hashes the VAA body from another offset than the Go encoder wrote it at",
                            "guardian set of %d, VAA with %d signatures: Ralph slices the body from byte %d (`%s`), Go's body starts at byte %d" % (n, k, off, expr, 6 + 66 * k),
                            concrete=True, replay={"guardian_set_size": n, "signatures": k, "ralph_body_offset_expr": expr, "ralph_body_offset": off, "go_body_offset": 6 + 66 * k},
                            key="C04:ralph-body-offset")
        except Exception as e:  # the search is best effort; the broken extractor is reported anyway
            ctx.say("ralph offset search failed: %r" % (e,))
    # second, independent reading of Messages.sol: parseVM interpreted statement by statement (checks/sol_interp.py) on the wire bytes the
    # real Marshal produced; what the contract would hold must be what the guardians signed — this is what finds a CONCRETE VAA when the
    # contract-side layout drifts (the extractor / theorem above only say that it did)
    try:
        import os, sol_interp
        sol_src = open(os.path.join(core.REPO, "ethereum/contracts/Messages.sol")).read()
        nsol = 0
        for r in rows:
            try:
                env = sol_interp.run(sol_src, bytes.fromhex(r["marshal"]))
            except ValueError as e:
                diffs = ["the contract reverts (%s) on a VAA the node produced" % e] if r["version"] == 1 else []
            else:
                diffs = sol_interp.compare(env, r)
            nsol += 1
            if diffs:
                ctx.problem("monitor", "Messages.sol parseVM reads other values from the serialized VAA than the guardians signed: " + "; ".join(diffs[:3]),
                            "interpreted contract source on the bytes (*VAA).Marshal() returned (target chain %d, emitter chain %d, %d signatures)" % (r["tchain"], r["echain"], len(r["sigs"])),
                            concrete=True, replay={"vaa": {k: r[k] for k in r if k != "mon"}, "differences": diffs}, key="C04:solidity-reads-other-values")
                break
        ctx.cov["vaas_parsed_by_the_interpreted_solidity_source"] = nsol
    except sol_interp.SolUnknown as e:
        ctx.say("solidity interpreter: %s" % e)
    # the node side of "every guardian builds the same VAA from the message's fields": the real handleMessage on generated and scripted
    # chain messages (incl. the zero time, pre-1970, post-2106, sub-second timestamps); the digest it signs must be the digest of the VAA
    # built from the fields alone (harness-side construction, x/crypto/sha3 called directly)
    import proc_common as P
    prow = P.run_harness(ctx)
    if prow is not None:
        nmsg = sum(1 for h in prow for o in h["ops"] if o["k"] == "msg")
        ctx.cov["processor_messages_checked"] = nmsg
        seen = set()
        for h in prow:
            for line in h["mon"]:
                c = P.mon_class(line)
                if c is None:
                    ctx.problem("machinery", line, "processor harness, history %s" % h["id"])
                elif c == "C01" and "locally assembled" in line and line not in seen:
                    # "the contracts recompute that same digest from the serialized VAA": a VAA the node assembled from its own observation
                    # whose signatures do not verify over the published body means the published body is not the one that was signed
                    seen.add(line)
                    ctx.problem("monitor", "C04: the VAA the node published for its own observation does not hash to the digest the guardians signed (" + line + ")",
                                "observed on the real handlers, history %s (%s)" % (h["id"], h.get("shape")), concrete=True,
                                replay=P.replay_obj(h, line), key="C04:published-body-is-not-the-signed-body")
                elif line.startswith("own observation broadcast with a signature that does not recover") and line not in seen:
                    # "every honest guardian observing the same message signs the same 32 bytes": the signature the node gossips must be one
                    # over the digest of the message it just observed (not one remembered for an earlier message with the same id)
                    seen.add(line)
                    ctx.problem("monitor", "C04: the node gossiped, for the digest of the message it observed, a signature that is not its signature over that digest (" + line + ")",
                                "observed on the real handleMessage, history %s (%s)" % (h["id"], h.get("shape")), concrete=True,
                                replay=P.replay_obj(h, line), key="C04:signature-not-over-the-observed-digest")
                elif c == "C04" and line not in seen:
                    seen.add(line)
                    ctx.problem("monitor", line, "observed on the real handleMessage, history %s (%s)" % (h["id"], h.get("shape")), concrete=True,
                                replay=P.replay_obj(h, line), key="C04:digest-not-a-function-of-message-fields")
    __import__("ralverify_common").differential(ctx)   # X11: governance.ral parseAndVerifyVAA translated in full vs the node, on real signatures
    ctx.assumptions = ["Keccak-256: the layout / independence / injectivity theorems hold for every function keccak; C04_digest_is_concrete and the C04_keccak_* theorems are about "
                       "the executable Gallina Keccak-256 of lib/Keccak.v, which is compared INSIDE Coq with go-ethereum crypto.Keccak256 (rows kk) and, through digest keccak256 v, "
                       "with the bytes (*VAA).SigningMsg() returns (every VAA row); that this function is collision resistant is NOT claimed (injectivity is stated for the signing body)",
                       "contract sources are read (extracted layouts), not executed"]


def kat_check(ctx, rows, krows):
    """Examples of coq/proofs/KeccakProofs.v and coq/props/C04.v carry expected values as literals; compare them with what Go returned in this run"""
    import os
    def lit(txt):
        return "".join(re.findall(r'x([0-9a-f]{2})\b', txt))
    n = 0
    try:
        kp = open(os.path.join(core.COQ, "proofs", "KeccakProofs.v")).read()
        want = {}
        for m in re.finditer(r'Example keccak256_kat_(\w+) : keccak256 [^=]*=\s*\[([^\]]*)\]', kp):
            want[m.group(1)] = lit(m.group(2))
        got = {}
        for r in krows:
            if r["kind"] == "kat:empty":
                got["empty"] = r["out"]
            elif r["kind"] == "kat:abc":
                got["abc"] = r["out"]
            elif r["kind"] == "kat:pat":
                got[str(r["n"])] = r["out"]
        for k in sorted(set(want) | set(got)):
            n += 1
            if want.get(k) != got.get(k):
                ctx.problem("correspondence", "known-answer vector keccak256_kat_%s of KeccakProofs.v is not what crypto.Keccak256 returns" % k,
                            "Coq literal %s, Go %s" % (want.get(k), got.get(k)), concrete=False, replay={"kat": k, "coq": want.get(k), "go": got.get(k)})
        ps = open(os.path.join(core.COQ, "props", "C04.v")).read()
        m = re.search(r'Example C04_example_digest : digest keccak256 ex_vaa =\s*\[([^\]]*)\]', ps)
        ex = [r for r in rows if r.get("kind") == "ex_vaa"]
        n += 1
        if not m or not ex or lit(m.group(1)) != ex[0]["digest"]:
            ctx.problem("correspondence", "C04_example_digest is not the digest SigningMsg returns for ex_vaa",
                        "Coq literal %s, Go %s" % (lit(m.group(1)) if m else None, ex[0]["digest"] if ex else None), concrete=False,
                        replay={"vaa": {k: ex[0][k] for k in ex[0] if k != "mon"}} if ex else {"missing": "ex_vaa row"})
    except OSError as e:
        ctx.problem("machinery", "known-answer comparison", repr(e))
    ctx.cov["coq_literals_compared_with_go"] = n

def hist(vals, edges):
    h = {}
    for v in vals:
        lab = None
        for e in edges:
            if v <= e:
                lab = "<=%d" % e
                break
        if lab is None:
            lab = ">%d" % edges[-1]
        h[lab] = h.get(lab, 0) + 1
    return h
