"""C04 — signing digest deterministic, injective, same layout in Go / Solidity / Ralph."""
import core, re
from vaa_common import HDR, gvaa, monitor_rows

def run(ctx):
    core.run_extract(ctx, ["vaa_consts", "sol_parsevm", "ral_parsevaa"])
    core.coq_prove(ctx, "C04")
    if ctx.tier == "thorough":
        core.coq_thorough_audit(ctx, "C04")
    rc, out, trace = core.harness_pkg(ctx, "vaa", "^TestVerifC04$")
    rows = core.read_jsonl(trace)
    if rc != 0 or not rows:
        ctx.problem("correspondence", "go harness C04", out[-1500:])
        return
    ctx.evaluations = len(rows)
    ctx.distinct = len({r["body"] for r in rows if len(r["payload"]) > 0})
    ctx.rule = ("random VAAs from VERIF_SEED with boundary field values, timestamps before 1970 / beyond 2106 / with sub-second parts, "
                "payload lengths incl. 999/1000/1001/4096, 0..255 signatures; distinct by signing body, non-trivial = non-empty payload")
    ctx.cov["payload_len_hist"] = hist([len(r["payload"]) // 2 for r in rows], [0, 1, 100, 1000, 1001, 5000])
    ctx.cov["nsig_hist"] = hist([len(r["sigs"]) for r in rows], [0, 1, 5, 20, 255])
    ctx.samples = [{k: (v if len(str(v)) < 90 else str(v)[:80] + "...") for k, v in r.items() if k != "mon"} for r in rows[:2]]
    monitor_rows(ctx, rows, lambda r, m: "mon:" + m, lambda r, m: {"vaa": {k: r[k] for k in r if k not in ("mon",)}, "monitor": m})
    # model vs implementation: body and marshal computed by the Gallina model on the same field values
    bad = core.run_cases(ctx, "cases_C04", rows, HDR, "vaa * Z * Z",
                         lambda r: "(%s, %d, %d)" % (gvaa(r), core.hash_bytes(r["body"]), core.hash_bytes(r["marshal"])),
                         "Definition ok (c : vaa * Z * Z) : bool := let '(v, b, m) := c in (hash_bytes (body v) =? b) && (hash_bytes (marshal v) =? m).",
                         weight=lambda r: len(r["payload"]) // 2 + 66 * len(r["sigs"]))
    if bad is None:
        return
    nb = len(rows)
    for i in bad[:3]:
        r = rows[i]
        ctx.problem("correspondence", "model body/marshal differs from SerializeBody/Marshal", "case %d" % i, concrete=False,
                    replay={"vaa": {k: r[k] for k in r if k != "mon"}})
    ctx.cov["traces_validated_against_impl"] = nb
    ctx.cov["mismatches"] = len(bad)
    # a contract-side body offset that no longer depends on the signature count alone: look for the VAA shape on which it disagrees with Go
    st = ctx.cov.get("extractors", {}).get("ral_parsevaa")
    if isinstance(st, str) and "body slice starts at" in st:
        import re, os
        try:
            src = open(os.path.join(core.REPO, "alephium/contracts/governance.ral")).read()
            m = re.search(r'let body = byteVecSlice!\(data, ([^,]+), size!\(data\)\)', src)
            expr = m.group(1)
            hit = None
            for n in range(1, 20):
                q = 2 * n // 3 + 1
                for k in range(q, n + 1):
                    env = {"signatureSize": k, "quorumSize": q, "guardianSize": n}
                    off = eval(re.sub(r'/', '//', expr), {"__builtins__": {}}, env)
                    if off != 6 + 66 * k and hit is None:
                        hit = (n, k, off)
            if hit:
                n, k, off = hit
                ctx.problem("monitor", "governance.ral hashes the VAA body from another offset than the Go encoder wrote it at",
                            "guardian set of %d, VAA with %d signatures: Ralph slices the body from byte %d (`%s`), Go's body starts at byte %d" % (n, k, off, expr, 6 + 66 * k),
                            concrete=True, replay={"guardian_set_size": n, "signatures": k, "ralph_body_offset_expr": expr, "ralph_body_offset": off, "go_body_offset": 6 + 66 * k},
                            key="C04:ralph-body-offset")
        except Exception as e:  # the search is best effort; the broken extractor is reported anyway
            ctx.say("ralph offset search failed: %r" % (e,))
    # the node side of "every guardian builds the same VAA from the message's fields": the real handleMessage on generated and scripted
    # chain messages (incl. the zero time, pre-1970, post-2106, sub-second timestamps); the digest it signs must be the digest of the VAA
    # built from the fields alone (harness-side construction, x/crypto/sha3 called directly)
    import proc_common as P
    prow = P.run_harness(ctx)
    if prow is not None:
        nmsg = sum(1 for h in prow for o in h["ops"] if o["k"] == "msg")
        ctx.cov["processor_messages_checked"] = nmsg
        seen = set()
        for h in prow:
            for line in h["mon"]:
                c = P.mon_class(line)
                if c is None:
                    ctx.problem("machinery", line, "processor harness, history %s" % h["id"])
                elif c == "C04" and line not in seen:
                    seen.add(line)
                    ctx.problem("monitor", line, "observed on the real handleMessage, history %s (%s)" % (h["id"], h.get("shape")), concrete=True,
                                replay=P.replay_obj(h, line), key="C04:digest-not-a-function-of-message-fields")
    ctx.assumptions = ["Keccak-256 is an uninterpreted function in the theorems; the harness checks SigningMsg = keccak(keccak(model body)) with x/crypto/sha3 called directly",
                       "contract sources are read (extracted layouts), not executed"]

def hist(vals, edges):
    h = {}
    for v in vals:
        lab = None
        for e in edges:
            if v <= e:
                lab = "<=%d" % e
                break
        if lab is None:
            lab = ">%d" % edges[-1]
        h[lab] = h.get(lab, 0) + 1
    return h
