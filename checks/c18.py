"""C18 — supervised services restart after failure and never run twice at once (partial by nature)."""
import json, re
import core

HDR = ("From Coq Require Import Uint63.\nFrom Coq Require Import List ZArith Bool Arith.\n"
       "From WH Require Import lib.Wire gen.Extracted model.Supervisor.\n"
       "Import ListNotations.\nOpen Scope Z_scope.\n"
       "(* expected node: dn, state code (Go's iota), ctx.Err() != nil, name of the smallest member of its group (-1: root) *)\n"
       "Definition enode := (dn * Z * bool * Z)%type.\n"
       "(* expected after a harness step: outcome (0 returned, 2 processor panic, 3 mutex left locked), tree, things in flight *)\n"
       "Definition exp := (Z * list enode * list token)%type.\n")

OKDEF = r"""
Definition scode (s : nstate) : Z := match s with SNew => 0 | SHealthy => 1 | SDead => 2 | SDone => 3 | SCanceled => 4 end.
Definition name_of (d : dn) : Z := last d (-1).
Definition same_group (t : tree) (a b : dn) : bool :=
  match find a t, find b t with
  | Some x, Some y => dn_eqb (parent a) (parent b) && (length a =? length b)%nat && (n_group x =? n_group y)%nat
  | _, _ => false
  end.
Definition node_ok (t : tree) (e : enode) : bool :=
  let '(d, sc, c, rep) := e in
  match find d t with
  | None => false
  | Some i => (scode (n_state i) =? sc) && Bool.eqb (cancelled d t) c &&
              match d with [] => true | _ => same_group t d (parent d ++ [rep]) end
  end.
(* same partition into groups: two siblings are in one group exactly when the harness saw the same representative *)
Definition groups_ok (t : tree) (es : list enode) : bool :=
  forallb (fun e1 => forallb (fun e2 =>
    let '(d1, _, _, r1) := e1 in let '(d2, _, _, r2) := e2 in
    if dn_eqb (parent d1) (parent d2) && (length d1 =? length d2)%nat && negb (length d1 =? 0)%nat
    then Bool.eqb (same_group t d1 d2) (r1 =? r2) else true) es) es.
Fixpoint toks_ok (have : list token) (want : list token) : bool :=
  match want with
  | [] => match have with [] => true | _ => false end
  | w :: r => has w have && toks_ok (remove1 w have) r
  end.
Definition state_ok (s : sst) (e : exp) : bool :=
  let '(_, es, ts) := e in
  (length (s_tree s) =? length es)%nat && forallb (node_ok (s_tree s)) es && groups_ok (s_tree s) es && toks_ok (s_toks s) ts.
Fixpoint runsteps (s : sst) (steps : list (list ev * exp)) : bool :=
  match steps with
  | [] => true
  | (evs, e) :: r =>
    match run sup_done_ready_needs_exit evs s with
    | Ok s' => (fst (fst e) =? 0) && state_ok s' e && runsteps s' r
    | ProcessorPanic => fst (fst e) =? 2
    | LockedPanic => fst (fst e) =? 3
    | Disabled => false
    end
  end.
Definition ok (c : list (list ev * exp)) : bool := runsteps init c.
"""

KIND = {"nil": "RNil", "ctx": "RCtx", "err": "RErr"}


class Names:
    def __init__(self):
        self.m = {}

    def num(self, nm):
        if re.fullmatch(r'n\d+', nm):
            return int(nm[1:])
        if nm not in self.m:
            self.m[nm] = 1000 + len(self.m)
        return self.m[nm]

    def dn(self, s):
        parts = s.split(".")
        assert parts[0] == "root"
        return "[" + ";".join(str(self.num(p)) for p in parts[1:]) + "]"


def det_case(r):
    nm = Names()
    out = []
    for st in r["steps"]:
        ev = st["ev"]
        if ev == "sched":
            evs = ["EProcSchedule %s" % nm.dn(st["dn"])]
        elif ev == "died":
            evs = ["EProcDied %s %s" % (nm.dn(st["dn"]), KIND[st["kind"]])]
        elif ev == "gc":
            evs = ["EGC"] + ["EBackoff %s" % nm.dn(d) for d in (st.get("woke") or [])]
        elif ev == "kill":
            evs = ["EKill"]
        elif ev == "healthy":
            evs = ["ESignalHealthy %s" % nm.dn(st["dn"])]
        elif ev == "done":
            evs = ["ESignalDone %s" % nm.dn(st["dn"])]
        elif ev == "rungroup":
            evs = ["ERunGroup %s [%s]" % (nm.dn(st["dn"]), ";".join(str(nm.num(x)) for x in st["names"]))]
        elif ev == "return":
            evs = ["EReturn %s %s" % (nm.dn(st["dn"]), KIND[st["kind"]])]
        else:
            raise ValueError(ev)
        code = {"ok": 0, "rejected": 0, "instance-panic": 0, "processor-panic": 2, "locked-panic": 3}.get(st["out"], 9)
        tree = core.glist("(%s, %d, %s, %s)" % (nm.dn(n["dn"]), n["state"], core.gbool(n["canc"]), core.gz(nm.num(n["rep"]) if n["rep"] else -1)) for n in (st["tree"] or []))
        toks = []
        for p in st["pending"]:
            f = p.split()
            toks.append("(%s, %s)" % (nm.dn(f[1]), "TSched" if f[0] == "S" else "TDied " + KIND[f[2]]))
        for d in st["live"]:
            toks.append("(%s, TInst)" % nm.dn(d))
        out.append("(%s, (%d, %s, %s))" % (core.glist(evs), code, tree, core.glist(toks)))
    return core.glist(out)


def classify(m):
    if "[below-completed-group-member]" in m:
        return "restart:below-completed-group-member"
    if m.startswith(("PROCESSOR PANIC", "TWO LIVE INSTANCES", "SCHEDULED WHILE LIVE")):
        return "instances:" + m.split(":")[0].split(" in step")[0].lower().replace(" ", "-")
    if m.startswith(("NOT RESTARTED", "RESTART NOT SCHEDULED", "NOT RUNNING AGAIN")):
        return "restart:not-restarted"
    if m.startswith(("STARTED AFTER CANCEL", "STILL RUNNING")):
        return "cancel:" + m.split(":")[0].lower().replace(" ", "-")
    if m.startswith("COMPLETED SERVICE RESTARTED"):
        return "done:restarted"
    return "mon:" + re.sub(r'\d+', 'N', m)[:60]


def monitor(ctx, rows):
    seen = {}
    for r in rows:
        lingering_done = False
        if r["k"] == "det":
            # does the history contain a runnable that signalled Done and was still on its way out when a GC ran?
            done_live = set()
            for st in r["steps"]:
                if st["ev"] == "done" and st["out"] == "ok":
                    done_live.add(st["dn"])
                if st["ev"] == "died" and st["dn"] in done_live:
                    done_live.discard(st["dn"])
                if st["ev"] == "gc" and done_live:
                    lingering_done = True
        for m in r.get("mon") or []:
            k = classify(m)
            if k.startswith("instances:") and (lingering_done or (r["k"] == "free" and r.get("late"))):
                k = "instances:done-exit-in-flight"
            if k in seen:
                seen[k] += 1
                continue
            seen[k] = 1
            rep = {"scenario": r.get("script") or r["sc"], "mode": r["k"], "monitor": m, "all_monitor_messages": r["mon"]}
            if r["k"] == "det":
                rep["events"] = [{kk: vv for kk, vv in st.items() if kk in ("ev", "dn", "kind", "names", "out", "msg", "woke")} for st in r["steps"]]
                rep["final_tree"] = r["steps"][-1]["tree"] if r["steps"] else None
            else:
                rep["spec"] = r["spec"]
                rep["stats"] = r["stats"]
            ctx.problem("monitor", m, "observed on the implementation (%s scenario %s)" % (r["k"], r.get("script") or r["sc"]), concrete=True, replay=rep, key=k)
    return seen


# ------------------------------------------------------------------ X9: the supervisor composed with the node's own service tree
X9_HDR = ("From Coq Require Import Uint63.\nFrom Coq Require Import List ZArith Bool Arith String.\n"
          "From WH Require Import lib.Wire gen.Extracted gen.ExtractedTree model.Supervisor model.NodeTree.\n"
          "Import ListNotations.\nOpen Scope Z_scope.\n"
          "(* flags that are NOT set; what is injected (0 nothing, 1 error return, 2 nil return, 3 panic in the runnable's goroutine, 4 panic in a goroutine\n"
          "   the service spawned, 5 the service calls rootCtxCancel, 6 the root runnable's constructor fails once); the service; is the supervisor created\n"
          "   with the extracted options (true) or without WithPropagatePanic (false); observed: outcome (0 alive, 2 crashed), starts of the root runnable,\n"
          "   per service (id, starts, live instances at the end) *)\n"
          "Definition x9case := (list nat * Z * Z * bool * (Z * nat * list (Z * nat * nat)))%type.\n")

X9_OKDEF = r"""
Definition tree_with (b : bool) : ntree :=
  {| nt_propagate := nt_propagate node_tree && b; nt_flags := nt_flags node_tree; nt_prog := nt_prog node_tree; nt_unsupervised := nt_unsupervised node_tree |}.
Definition inject (k x : Z) : list pev :=
  if k =? 1 then [PSup (EReturn [x] RErr)] else if k =? 2 then [PSup (EReturn [x] RNil)] else if k =? 3 then [PPanic [x]]
  else if k =? 4 then [PSpawnPanic x] else if k =? 5 then [PCancelRoot x] else [].
Definition ok (cs : x9case) : bool :=
  let '(off, k, x, opt, (out, rs, per)) := cs in
  let c : cfg := fun f => negb (existsb (Nat.eqb f) off) in
  let T := tree_with opt in
  let m := play sup_done_ready_needs_exit T c 60 (inject k x) (sim_init (if k =? 6 then 1 else 0)) in
  match sm_out m with
  | PRun s => (out =? 0) && (starts_of m [] =? rs)%nat &&
              forallb (fun r => let '(y, st, lv) := r in (starts_of m [y] =? st)%nat && (running [y] (p_sup s) =? lv)%nat) per
  | PCrash _ => out =? 2
  | _ => false
  end.
"""

X9_KIND = {"none": 0, "err": 1, "nil": 2, "panic": 3, "spawnpanic": 4, "cancel": 5, "ctor": 6}


def x9_tree_file(ctx, info):
    import os
    p = os.path.join(core.BUILD, "tmp", "x9_tree_%s_%d.json" % (ctx.pid, os.getpid()))
    json.dump({"propagate": info["propagate"], "flags": info["flags"], "services": info["services"], "program": info["program"]}, open(p, "w"), indent=1)
    return p


def x9_case(info):
    ids = {s["name"]: s["id"] for s in info["services"]}

    def g(r):
        sc = r["scenario"]
        off = core.glist("%d%%nat" % info["flags"].index(f) for f in (sc.get("flags_off") or []))
        per = core.glist("(%d, %d%%nat, %d%%nat)" % (ids[n], r["starts"].get(n, 0), r["live"].get(n, 0)) for n in sorted(ids, key=lambda n: ids[n])) if r["outcome"] == "alive" else "[]"
        return "(%s, %d, %d, %s, (%d, %d%%nat, %s))" % (off, X9_KIND[sc["kind"]], ids.get(sc.get("svc") or "", 0), core.gbool(sc["opt"] != "off"),
                                                      0 if r["outcome"] == "alive" else 2 if r["outcome"] == "crash" else 9, r.get("root_starts", 0), per)
    return g


def x9_monitor(ctx, info, rows, pid):
    """the property statements on the real supervisor running the extracted tree; pid selects the clauses (C18: restart / isolation / instances /
    cancel; C13: a panic in a supervised service terminates the process)"""
    group_of = {}
    for i, st in enumerate(info["program"]):
        for n in st.get("names") or []:
            group_of[n] = i
    fn_of = {s["name"]: s["runnable"] for s in info["services"]}
    seen = {}

    def report(key, msg, r):
        if key in seen:
            seen[key] += 1
            return
        seen[key] = 1
        ctx.problem("monitor", msg, "the extracted service tree on the real supervisor package, scenario %s" % r["scenario"]["sc"], concrete=True,
                    replay={"scenario": r["scenario"], "observed": {k: r.get(k) for k in ("outcome", "exit", "panic", "starts", "live", "maxlive_fn", "cancelled", "root_starts", "starts_after_cancel")},
                            "tree": {"propagate": info["propagate"], "program": info["program"]},
                            "how": "go test -tags verif -run TestVerifX9Tree ./pkg/supervisor with VERIF_X9_TREE=<this tree>"}, key=key)

    for r in rows:
        sc = r["scenario"]
        kind, svc = sc["kind"], sc.get("svc") or ""
        if r["outcome"] == "other":
            ctx.problem("correspondence", "x9 scenario %s did not produce a result" % sc["sc"], (r.get("note") or "")[-600:])
            continue
        if pid == "C13":
            if kind == "panic" and sc["opt"] == "extracted" and r["outcome"] != "crash":
                report("premise:panic-not-propagated", "PANIC IN SUPERVISED SERVICE %s DID NOT TERMINATE THE PROCESS: with the supervisor options of node.go the panic was captured "
                       "(service started %d times, process alive)" % (svc, r["starts"].get(svc, 0)), r)
            continue
        if r["outcome"] == "alive":
            for f, n in (r.get("maxlive_fn") or {}).items():
                if n > 1:
                    report("instances:service-function-twice", "TWO LIVE INSTANCES OF ONE SERVICE FUNCTION: runnable #%s of node.go (%s) had %d instances alive at once"
                           % (f, ", ".join(n2 for n2 in fn_of if str(fn_of[n2]) == f), n), r)
            enabled = [n for st in info["program"] for n in (st.get("names") or []) if st.get("flag") not in (sc.get("flags_off") or [])]
            if kind in ("err", "nil") or (kind == "panic" and sc["opt"] == "off"):
                if svc in enabled and r["starts"].get(svc, 0) < 2:
                    report("restart:not-restarted", "NOT RESTARTED: service %s %s and was not started again (starts %d)" % (svc, {"err": "returned an error", "nil": "returned nil", "panic": "panicked (capture on)"}[kind], r["starts"].get(svc, 0)), r)
                for n in enabled:
                    # X9 (c): the services of the guardian node are isolated from each other (props/C18.v: C18_node_isolation, node_tree_ok: one service per group)
                    if n != svc and (r["starts"].get(n, 0) != 1 or r["cancelled"].get(n, 0) != 0):
                        report("isolation:other-service-restarted", "RESTARTED BY ANOTHER SERVICE'S FAILURE: %s was cancelled / started again (starts %d, cancellations %d) when %s failed%s"
                               % (n, r["starts"].get(n, 0), r["cancelled"].get(n, 0), svc, " (node.go starts them in one supervision group)" if group_of.get(n) == group_of.get(svc) else ""), r)
                        break
            if kind == "none":
                for n in enabled:
                    if r["starts"].get(n, 0) != 1:
                        report("tree:not-started-once", "SERVICE %s STARTED %d TIMES in a run without failures" % (n, r["starts"].get(n, 0)), r)
                        break
            if kind == "cancel":
                if any(v for v in r["live"].values()):
                    report("cancel:still-running", "STILL RUNNING after the root context was cancelled: %s" % sorted(n for n, v in r["live"].items() if v), r)
                if r.get("starts_after_cancel"):
                    report("cancel:started-after-cancel", "STARTED AFTER CANCEL: %d runnables were started after the root context had been cancelled" % r["starts_after_cancel"], r)
        if kind == "spawnpanic" and r["outcome"] != "crash":
            ctx.problem("correspondence", "x9: a panic in a goroutine spawned by a test service did not crash the child process", json.dumps(r)[:400])
    return seen


def x9_run(ctx, st, pid="C18", only=""):
    """the extracted tree on the real supervisor, compared with model/NodeTree.v and judged by the monitors"""
    s = st.get("servicetree") or {}
    if not s.get("ok"):
        return          # recorded by run_extract
    info = s["info"]
    core.coq_make(["model/NodeTree.vo"])
    rc, out, trace = core.harness_pkg(ctx, "supervisor", "^TestVerifX9Tree$", env={"VERIF_X9_TREE": x9_tree_file(ctx, info), "VERIF_X9_ONLY": only}, timeout=300)
    rows = [r for r in core.read_jsonl(trace) if r.get("k") == "x9"]
    if rc != 0 or not rows:
        ctx.problem("correspondence", "go harness X9 (service tree)", out[-1500:])
        return
    ctx.cov["x9_scenarios"] = len(rows)
    ctx.cov["x9_outcomes"] = {}
    for r in rows:
        k = "%s:%s:%s" % (r["scenario"]["kind"], r["scenario"]["opt"], r["outcome"])
        ctx.cov["x9_outcomes"][k] = ctx.cov["x9_outcomes"].get(k, 0) + 1
    ctx.cov["x9_tree"] = {"propagate": info["propagate"], "groups": [st_.get("names") for st_ in info["program"] if st_["op"] == "run"],
                          "goroutines_outside_the_supervisor": {s_["name"]: s_["spawns"] for s_ in info["services"]}, "unsupervised_in_runNode": info["unsupervised"],
                          "holds_rootCtxCancel": [s_["name"] for s_ in info["services"] if s_["root_cancel"]]}
    ctx.evaluations += len(rows)
    ctx.cov["x9_monitor_classes"] = x9_monitor(ctx, info, rows, pid)
    good = [r for r in rows if r["outcome"] in ("alive", "crash")]
    bad = core.run_cases(ctx, "cases_X9_" + pid, good, X9_HDR, "x9case", x9_case(info), X9_OKDEF, nshards=4)
    if bad:
        for i in bad[:3]:
            ctx.problem("correspondence", "model (NodeTree.v) differs from the real supervisor running the extracted tree", "scenario %s: %s" % (good[i]["scenario"]["sc"], json.dumps(good[i])[:500]),
                        concrete=False, replay={"scenario": good[i]})
    ctx.cov["x9_mismatches"] = len(bad or [])


def run(ctx):
    xst = core.run_extract(ctx, ["supervisor", "servicetree", "supervisor_options"])
    core.coq_prove(ctx, "C18")
    if ctx.tier == "thorough":
        core.coq_thorough_audit(ctx, "C18")
    core.coq_make(["model/Supervisor.vo"])
    rc, out, trace = core.harness_pkg(ctx, "supervisor", "^TestVerifC18Det$", race=(ctx.tier == "thorough"), timeout=1500)
    drows = [r for r in core.read_jsonl(trace) if r.get("k") == "det"]
    if rc != 0 or not drows:
        ctx.problem("correspondence", "go harness C18 (deterministic)", out[-1500:])
    rc2, out2, trace2 = core.harness_pkg(ctx, "supervisor", "^TestVerifC18Free$", race=True, timeout=1500)
    frows = sorted([r for r in core.read_jsonl(trace2) if r.get("k") == "free"], key=lambda r: r["sc"])
    if "DATA RACE" in out2:
        blk = out2.split("WARNING: DATA RACE")[1][:1500]
        ctx.problem("monitor", "race detector report in the free-running supervisor run", blk, concrete=True, replay={"report": blk}, key="data-race")
    elif rc2 != 0 and re.search(r'^panic: ', out2, re.M):
        line = re.search(r'^panic: .*', out2, re.M).group(0)
        ctx.problem("monitor", "the free-running supervisor crashed the process: " + line[:300], out2[-1500:], concrete=True,
                    replay={"how": "go test -race -run TestVerifC18Free ./pkg/supervisor (real New(), scripted services)", "panic": line, "output_tail": out2[-3000:]},
                    key="instances:processor-panic-free-running")
    elif rc2 != 0 or not frows:
        ctx.problem("correspondence", "go harness C18 (free-running)", out2[-1500:])
    evh, distinct = {}, set()
    for r in drows:
        for st in r["steps"]:
            k = st["ev"] + ":" + st["out"]
            evh[k] = evh.get(k, 0) + 1
            ctx.evaluations += 1
            distinct.add((st["ev"], st.get("dn"), st.get("kind"), json.dumps(st["tree"]), tuple(st["pending"]), tuple(st["live"])))
    ctx.cov["det_event_outcomes"] = dict(sorted(evh.items()))
    ctx.cov["det_scenarios"] = len(drows)
    ctx.cov["det_max_tree"] = max([len(st["tree"] or []) for r in drows for st in r["steps"]] or [0])
    ctx.cov["free_scenarios"] = len(frows)
    ctx.cov["free_totals"] = {"services": sum(len(r["stats"]) for r in frows), "starts": sum(s["starts"] for r in frows for s in r["stats"].values()),
                              "scripted_failures": sum(s["fails"] for r in frows for s in r["stats"].values()),
                              "max_live_per_service": max([s["maxlive"] for r in frows for s in r["stats"].values()] or [0])}
    ctx.evaluations += ctx.cov["free_totals"]["starts"]
    ctx.cov["monitor_classes"] = monitor(ctx, drows + frows)
    bad = core.run_cases(ctx, "cases_C18", drows, HDR, "list (list ev * exp)", det_case, OKDEF,
                         weight=lambda r: sum(20 + 12 * len(st["tree"] or []) for st in r["steps"]))
    if bad is not None:
        for i in bad[:3]:
            r = drows[i]
            ctx.problem("correspondence", "model (Supervisor.v) differs from the supervisor's handlers", "det scenario %s" % (r.get("script") or r["sc"]),
                        concrete=False, replay={"scenario": r})
        ctx.cov["det_scenarios_validated_against_model"] = len(drows)
        ctx.cov["mismatches"] = len(bad)
    x9_run(ctx, xst)
    ctx.distinct = len(distinct)
    ctx.rule = ("deterministic mode: histories of processSchedule / processDied / processGC / processKill calls (the harness plays the processor and picks the delivery "
                "order) interleaved with runnables' Signal / RunGroup / return (nil, context error, error, panic) on trees up to depth 3, plus scripted histories; "
                "free-running mode: real New() with the 1 ms GC and real back-off on random tree shapes up to depth 3 with scripted failure times, kinds, completion "
                "and exit latencies, under -race. distinct = distinct (event, resulting tree, things in flight); all non-trivial")
    ctx.samples = [{"det scenario": [(st["ev"], st.get("dn"), st.get("kind")) for st in r["steps"][:14]]} for r in drows[4:5]] + \
                  [{"free scenario": {"services": len(r["stats"]), "starts": sum(s["starts"] for s in r["stats"].values())}} for r in frows[:1]]
    ctx.assumptions = [
        "atomic steps = one handler call of the processor / one call of a runnable into the supervisor (all under the supervisor mutex) / a runnable returning; Go scheduling inside a step, timer accuracy "
        "and goroutine leaks after shutdown are not modelled (free-running mode under -race covers unsynchronised access)",
        "panic capture on (WithPropagatePanic not set): a panicking runnable is an error exit",
        "bounded back-off = cenkalti/backoff ExponentialBackOff with MaxElapsedTime = 0 (caps at MaxInterval * 1.5): library behaviour, trusted; the deterministic harness shrinks the intervals, "
        "the free-running harness observes restarts within a deadline",
        "runnable names are valid and a RunGroup call's names are distinct (Go map keys)",
        "X9 (node tree): the services below the root runnable are abstract (any supervisor call, any exit, panics); which goroutines a service spawns / whether it recovers / "
        "whether it holds rootCtxCancel is read by name-based reachability inside the service's own package (calls into other packages are not followed); "
        "'an unrecovered panic in any goroutine terminates the process' and 'returning from main terminates the process' are the model's rules (Go semantics); "
        "the harness runs the extracted tree shape with test runnables on the real supervisor package, not the real service functions",
    ]
