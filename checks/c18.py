"""C18 — supervised services restart after failure and never run twice at once (partial by nature)."""
import json, re
import core

HDR = ("From Coq Require Import Uint63.\nFrom Coq Require Import List ZArith Bool Arith.\n"
       "From WH Require Import lib.Wire gen.Extracted model.Supervisor.\n"
       "Import ListNotations.\nOpen Scope Z_scope.\n"
       "(* expected node: dn, state code (Go's iota), ctx.Err() != nil, name of the smallest member of its group (-1: root) *)\n"
       "Definition enode := (dn * Z * bool * Z)%type.\n"
       "(* expected after a harness step: outcome (0 returned, 2 processor panic, 3 mutex left locked), tree, things in flight *)\n"
       "Definition exp := (Z * list enode * list token)%type.\n")

OKDEF = r"""
Definition scode (s : nstate) : Z := match s with SNew => 0 | SHealthy => 1 | SDead => 2 | SDone => 3 | SCanceled => 4 end.
Definition name_of (d : dn) : Z := last d (-1).
Definition same_group (t : tree) (a b : dn) : bool :=
  match find a t, find b t with
  | Some x, Some y => dn_eqb (parent a) (parent b) && (length a =? length b)%nat && (n_group x =? n_group y)%nat
  | _, _ => false
  end.
Definition node_ok (t : tree) (e : enode) : bool :=
  let '(d, sc, c, rep) := e in
  match find d t with
  | None => false
  | Some i => (scode (n_state i) =? sc) && Bool.eqb (cancelled d t) c &&
              match d with [] => true | _ => same_group t d (parent d ++ [rep]) end
  end.
(* same partition into groups: two siblings are in one group exactly when the harness saw the same representative *)
Definition groups_ok (t : tree) (es : list enode) : bool :=
  forallb (fun e1 => forallb (fun e2 =>
    let '(d1, _, _, r1) := e1 in let '(d2, _, _, r2) := e2 in
    if dn_eqb (parent d1) (parent d2) && (length d1 =? length d2)%nat && negb (length d1 =? 0)%nat
    then Bool.eqb (same_group t d1 d2) (r1 =? r2) else true) es) es.
Fixpoint toks_ok (have : list token) (want : list token) : bool :=
  match want with
  | [] => match have with [] => true | _ => false end
  | w :: r => has w have && toks_ok (remove1 w have) r
  end.
Definition state_ok (s : sst) (e : exp) : bool :=
  let '(_, es, ts) := e in
  (length (s_tree s) =? length es)%nat && forallb (node_ok (s_tree s)) es && groups_ok (s_tree s) es && toks_ok (s_toks s) ts.
Fixpoint runsteps (s : sst) (steps : list (list ev * exp)) : bool :=
  match steps with
  | [] => true
  | (evs, e) :: r =>
    match run sup_done_ready_needs_exit evs s with
    | Ok s' => (fst (fst e) =? 0) && state_ok s' e && runsteps s' r
    | ProcessorPanic => fst (fst e) =? 2
    | LockedPanic => fst (fst e) =? 3
    | Disabled => false
    end
  end.
Definition ok (c : list (list ev * exp)) : bool := runsteps init c.
"""

KIND = {"nil": "RNil", "ctx": "RCtx", "err": "RErr"}


class Names:
    def __init__(self):
        self.m = {}

    def num(self, nm):
        if re.fullmatch(r'n\d+', nm):
            return int(nm[1:])
        if nm not in self.m:
            self.m[nm] = 1000 + len(self.m)
        return self.m[nm]

    def dn(self, s):
        parts = s.split(".")
        assert parts[0] == "root"
        return "[" + ";".join(str(self.num(p)) for p in parts[1:]) + "]"


def det_case(r):
    nm = Names()
    out = []
    for st in r["steps"]:
        ev = st["ev"]
        if ev == "sched":
            evs = ["EProcSchedule %s" % nm.dn(st["dn"])]
        elif ev == "died":
            evs = ["EProcDied %s %s" % (nm.dn(st["dn"]), KIND[st["kind"]])]
        elif ev == "gc":
            evs = ["EGC"] + ["EBackoff %s" % nm.dn(d) for d in (st.get("woke") or [])]
        elif ev == "kill":
            evs = ["EKill"]
        elif ev == "healthy":
            evs = ["ESignalHealthy %s" % nm.dn(st["dn"])]
        elif ev == "done":
            evs = ["ESignalDone %s" % nm.dn(st["dn"])]
        elif ev == "rungroup":
            evs = ["ERunGroup %s [%s]" % (nm.dn(st["dn"]), ";".join(str(nm.num(x)) for x in st["names"]))]
        elif ev == "return":
            evs = ["EReturn %s %s" % (nm.dn(st["dn"]), KIND[st["kind"]])]
        else:
            raise ValueError(ev)
        code = {"ok": 0, "rejected": 0, "instance-panic": 0, "processor-panic": 2, "locked-panic": 3}.get(st["out"], 9)
        tree = core.glist("(%s, %d, %s, %s)" % (nm.dn(n["dn"]), n["state"], core.gbool(n["canc"]), core.gz(nm.num(n["rep"]) if n["rep"] else -1)) for n in (st["tree"] or []))
        toks = []
        for p in st["pending"]:
            f = p.split()
            toks.append("(%s, %s)" % (nm.dn(f[1]), "TSched" if f[0] == "S" else "TDied " + KIND[f[2]]))
        for d in st["live"]:
            toks.append("(%s, TInst)" % nm.dn(d))
        out.append("(%s, (%d, %s, %s))" % (core.glist(evs), code, tree, core.glist(toks)))
    return core.glist(out)


def classify(m):
    if "[below-completed-group-member]" in m:
        return "restart:below-completed-group-member"
    if m.startswith(("PROCESSOR PANIC", "TWO LIVE INSTANCES", "SCHEDULED WHILE LIVE")):
        return "instances:" + m.split(":")[0].split(" in step")[0].lower().replace(" ", "-")
    if m.startswith(("NOT RESTARTED", "RESTART NOT SCHEDULED", "NOT RUNNING AGAIN")):
        return "restart:not-restarted"
    if m.startswith(("STARTED AFTER CANCEL", "STILL RUNNING")):
        return "cancel:" + m.split(":")[0].lower().replace(" ", "-")
    if m.startswith("COMPLETED SERVICE RESTARTED"):
        return "done:restarted"
    return "mon:" + re.sub(r'\d+', 'N', m)[:60]


def monitor(ctx, rows):
    seen = {}
    for r in rows:
        lingering_done = False
        if r["k"] == "det":
            # does the history contain a runnable that signalled Done and was still on its way out when a GC ran?
            done_live = set()
            for st in r["steps"]:
                if st["ev"] == "done" and st["out"] == "ok":
                    done_live.add(st["dn"])
                if st["ev"] == "died" and st["dn"] in done_live:
                    done_live.discard(st["dn"])
                if st["ev"] == "gc" and done_live:
                    lingering_done = True
        for m in r.get("mon") or []:
            k = classify(m)
            if k.startswith("instances:") and (lingering_done or (r["k"] == "free" and r.get("late"))):
                k = "instances:done-exit-in-flight"
            if k in seen:
                seen[k] += 1
                continue
            seen[k] = 1
            rep = {"scenario": r.get("script") or r["sc"], "mode": r["k"], "monitor": m, "all_monitor_messages": r["mon"]}
            if r["k"] == "det":
                rep["events"] = [{kk: vv for kk, vv in st.items() if kk in ("ev", "dn", "kind", "names", "out", "msg", "woke")} for st in r["steps"]]
                rep["final_tree"] = r["steps"][-1]["tree"] if r["steps"] else None
            else:
                rep["spec"] = r["spec"]
                rep["stats"] = r["stats"]
            ctx.problem("monitor", m, "observed on the implementation (%s scenario %s)" % (r["k"], r.get("script") or r["sc"]), concrete=True, replay=rep, key=k)
    return seen


def run(ctx):
    core.run_extract(ctx, ["supervisor"])
    core.coq_prove(ctx, "C18")
    if ctx.tier == "thorough":
        core.coq_thorough_audit(ctx, "C18")
    core.coq_make(["model/Supervisor.vo"])
    rc, out, trace = core.harness_pkg(ctx, "supervisor", "^TestVerifC18Det$", race=(ctx.tier == "thorough"), timeout=1500)
    drows = [r for r in core.read_jsonl(trace) if r.get("k") == "det"]
    if rc != 0 or not drows:
        ctx.problem("correspondence", "go harness C18 (deterministic)", out[-1500:])
    rc2, out2, trace2 = core.harness_pkg(ctx, "supervisor", "^TestVerifC18Free$", race=True, timeout=1500)
    frows = sorted([r for r in core.read_jsonl(trace2) if r.get("k") == "free"], key=lambda r: r["sc"])
    if "DATA RACE" in out2:
        blk = out2.split("WARNING: DATA RACE")[1][:1500]
        ctx.problem("monitor", "race detector report in the free-running supervisor run", blk, concrete=True, replay={"report": blk}, key="data-race")
    elif rc2 != 0 and re.search(r'^panic: ', out2, re.M):
        line = re.search(r'^panic: .*', out2, re.M).group(0)
        ctx.problem("monitor", "the free-running supervisor crashed the process: " + line[:300], out2[-1500:], concrete=True,
                    replay={"how": "go test -race -run TestVerifC18Free ./pkg/supervisor (real New(), scripted services)", "panic": line, "output_tail": out2[-3000:]},
                    key="instances:processor-panic-free-running")
    elif rc2 != 0 or not frows:
        ctx.problem("correspondence", "go harness C18 (free-running)", out2[-1500:])
    evh, distinct = {}, set()
    for r in drows:
        for st in r["steps"]:
            k = st["ev"] + ":" + st["out"]
            evh[k] = evh.get(k, 0) + 1
            ctx.evaluations += 1
            distinct.add((st["ev"], st.get("dn"), st.get("kind"), json.dumps(st["tree"]), tuple(st["pending"]), tuple(st["live"])))
    ctx.cov["det_event_outcomes"] = dict(sorted(evh.items()))
    ctx.cov["det_scenarios"] = len(drows)
    ctx.cov["det_max_tree"] = max([len(st["tree"] or []) for r in drows for st in r["steps"]] or [0])
    ctx.cov["free_scenarios"] = len(frows)
    ctx.cov["free_totals"] = {"services": sum(len(r["stats"]) for r in frows), "starts": sum(s["starts"] for r in frows for s in r["stats"].values()),
                              "scripted_failures": sum(s["fails"] for r in frows for s in r["stats"].values()),
                              "max_live_per_service": max([s["maxlive"] for r in frows for s in r["stats"].values()] or [0])}
    ctx.evaluations += ctx.cov["free_totals"]["starts"]
    ctx.cov["monitor_classes"] = monitor(ctx, drows + frows)
    bad = core.run_cases(ctx, "cases_C18", drows, HDR, "list (list ev * exp)", det_case, OKDEF,
                         weight=lambda r: sum(20 + 12 * len(st["tree"] or []) for st in r["steps"]))
    if bad is not None:
        for i in bad[:3]:
            r = drows[i]
            ctx.problem("correspondence", "model (Supervisor.v) differs from the supervisor's handlers", "det scenario %s" % (r.get("script") or r["sc"]),
                        concrete=False, replay={"scenario": r})
        ctx.cov["det_scenarios_validated_against_model"] = len(drows)
        ctx.cov["mismatches"] = len(bad)
    ctx.distinct = len(distinct)
    ctx.rule = ("deterministic mode: histories of processSchedule / processDied / processGC / processKill calls (the harness plays the processor and picks the delivery "
                "order) interleaved with runnables' Signal / RunGroup / return (nil, context error, error, panic) on trees up to depth 3, plus scripted histories; "
                "free-running mode: real New() with the 1 ms GC and real back-off on random tree shapes up to depth 3 with scripted failure times, kinds, completion "
                "and exit latencies, under -race. distinct = distinct (event, resulting tree, things in flight); all non-trivial")
    ctx.samples = [{"det scenario": [(st["ev"], st.get("dn"), st.get("kind")) for st in r["steps"][:14]]} for r in drows[4:5]] + \
                  [{"free scenario": {"services": len(r["stats"]), "starts": sum(s["starts"] for s in r["stats"].values())}} for r in frows[:1]]
    ctx.assumptions = [
        "atomic steps = one handler call of the processor / one call of a runnable into the supervisor (all under the supervisor mutex) / a runnable returning; Go scheduling inside a step, timer accuracy "
        "and goroutine leaks after shutdown are not modelled (free-running mode under -race covers unsynchronised access)",
        "panic capture on (WithPropagatePanic not set): a panicking runnable is an error exit",
        "bounded back-off = cenkalti/backoff ExponentialBackOff with MaxElapsedTime = 0 (caps at MaxInterval * 1.5): library behaviour, trusted; the deterministic harness shrinks the intervals, "
        "the free-running harness observes restarts within a deadline",
        "runnable names are valid and a RunGroup call's names are distinct (Go map keys)",
    ]
