"""C11 — Alephium event fields map faithfully to the attested message."""
import json, os, threading
import core
from vaa_common import monitor_rows

HDR = ("From Coq Require Import Uint63.\nFrom Coq Require Import Strings.String.\nFrom Coq Require Import List ZArith Bool Arith Strings.Byte.\n"
       "From WH Require Import lib.Bytes lib.Wire lib.Digits gen.Extracted model.Vaa model.AlphConv.\n"
       "Import ListNotations.\nOpen Scope Z_scope.\n"
       "Inductive case :=\n"
       "| CWm (fields : list val) (txid : bytes) (code : Z) (sender : bytes) (tc sq nonce ph cl : Z) (txh : bytes) (ech : Z) (mps : list (Z * Z * Z))\n"
       "| CNum (s : bytes) (r256 r8 r16 r64 : Z * Z)\n"
       "| CHex32 (s : bytes) (code : Z) (out back : bytes)\n"
       "| CToAddr (s : bytes) (code : Z) (out : bytes)\n"
       "| CToId (s : bytes) (code : Z) (out : bytes)\n"
       "| CAttest (p : bytes) (code : Z) (id : bytes) (dec : Z) (sym name : bytes)\n"
       "| CTrim (i o : bytes).\n")

OKDEF = """
Definition ecode (e : cerr) : Z := match e with EFieldCount => 1 | ENilByteVec => 2 | ETypeByteVec => 3 | EHex => 4 | EByte32 => 5 | ENilU256 => 6
 | ETypeU256 => 7 | EBadU256 => 8 | EUint8 => 9 | EUint16 => 10 | EUint64 => 11 | ENonceSize => 12 | EHexLen => 13 | EAttestLen => 14 | EAttestChain => 15
 | EAddrLen => 16 | ENonAscii => 97 end.
Definition chkz (r : cres Z) (cv : Z * Z) : bool := match r with COk x => (fst cv =? 0) && (x =? snd cv) | CErr e => fst cv =? ecode e end.
Definition chkb (r : cres bytes) (c : Z) (o : bytes) : bool := match r with COk x => (c =? 0) && bytes_eqb x o | CErr e => c =? ecode e end.
Definition ok (c : case) : bool :=
  match c with
  | CWm fields txid code sender tc sq nonce ph cl txh ech mps =>
    match to_wormhole_message fields txid with
    | CErr e => code =? ecode e
    | COk w => (code =? 0) && bytes_eqb (w_sender w) sender && (w_target w =? tc) && (w_seq w =? sq) && (w_nonce w =? nonce)
        && (hash_bytes (w_payload w) =? ph) && (w_cl w =? cl) && bytes_eqb (w_txid w) txid
        && forallb (fun t => let '(ms, secs, nsec) := t in let m := to_message_publication w ms in
                             (m_ts m =? secs) && (m_tns m =? nsec) && bytes_eqb (m_tx m) txh && (m_echain m =? ech)
                             && (m_tchain m =? tc) && (m_seq m =? sq) && (m_cl m =? cl) && (m_nonce m =? nonce) && bytes_eqb (m_eaddr m) sender
                             && (hash_bytes (m_payload m) =? ph)) mps
    end
  | CNum s r256 r8 r16 r64 =>
    let f := VU256 (str "U256") s in
    chkz (to_u256 f) r256 && chkz (to_uint8 f) r8 && chkz (to_uint16 f) r16 && chkz (to_uint64 f) r64
  | CHex32 s code out back =>
    chkb (hex_to_byte32 s) code out && match hex_to_byte32 s with COk b => bytes_eqb (to_hex b) back | CErr _ => true end
  | CToAddr s code out => chkb (to_contract_address s) code out
  | CToId s code out => chkb (to_contract_id s) code out
  | CAttest p code id dec sym name =>
    match parse_attest_token p with
    | CErr e => code =? ecode e
    | COk t => (code =? 0) && bytes_eqb (t_id t) id && (t_decimals t =? dec) && bytes_eqb (t_symbol t) sym && bytes_eqb (t_name t) name
    end
  | CTrim i o => bytes_eqb (bytes_to_string i) o
  end.
"""

def B(h):
    return "(B %s)" % core.gbytes(h or "")

def gfield(f):
    if f["v"] == "u256":
        return "VU256 %s %s" % (B(f["t"]), B(f["s"]))
    if f["v"] == "bytevec":
        return "VByteVec %s %s" % (B(f["t"]), B(f["s"]))
    return "VNil" if f["v"] == "nil" else "VOther"

def gcase(r):
    k = r["k"]
    if k == "wm":
        mps = r.get("mp") or []
        txh = mps[0]["txhash"] if mps else ""
        ech = mps[0]["echain"] if mps else 0
        return "CWm %s %s %d %s %d %d %d %d %d %s %d %s" % (
            core.glist(gfield(f) for f in r["fields"]), B(r["txid"]), r["code"], B(r.get("sender", "")), r.get("tc", 0), r.get("seq", 0),
            r.get("nonce", 0), core.hash_bytes(r.get("payload", "")), r.get("cl", 0), B(txh), ech,
            core.glist("(%s, %s, %s)" % (core.gz(m["ms"]), core.gz(m["secs"]), core.gz(m["nsec"])) for m in mps))
    if k == "num":
        def cv(n):
            x = r[n]
            return "(%d, %s)" % (x["code"], core.gz(x["val"] or 0))
        return "CNum %s %s %s %s %s" % (B(r["s"]), cv("toU256"), cv("toUint8"), cv("toUint16"), cv("toUint64"))
    if k == "hex32":
        return "CHex32 %s %d %s %s" % (B(r["s"]), r["code"], B(r.get("out", "")), B(r.get("back", "")))
    if k == "toaddr":
        return "CToAddr %s %d %s" % (B(r["s"]), r["code"], B(r.get("out", "")))
    if k == "toid":
        return "CToId %s %d %s" % (B(r["s"]), r["code"], B(r.get("out", "")))
    if k == "attest":
        return "CAttest %s %d %s %d %s %s" % (B(r["in"]), r["code"], B(r.get("id", "")), r.get("dec", 0), B(r.get("sym", "")), B(r.get("name", "")))
    if k == "trim":
        return "CTrim %s %s" % (B(r["in"]), B(r["out"]))
    raise ValueError(k)

def txt(h):
    return bytes.fromhex(h).decode("utf-8", "backslashreplace")

def describe(r):
    k = r["k"]
    if k == "wm":
        return {"fn": "ToWormholeMessage", "fields": [{"variant": f["v"], "type": txt(f["t"]), "value": txt(f["s"])} for f in r["fields"]],
                "txId": txt(r["txid"]), "go_result_code": r["code"],
                "go_result": {x: r[x] for x in ("sender", "tc", "seq", "nonce", "cl") if x in r}}
    if k == "num":
        return {"fn": "toU256/toUint8/toUint16/toUint64", "value": txt(r["s"]), "go_results": {n: r[n] for n in ("toU256", "toUint8", "toUint16", "toUint64")}}
    if k in ("hex32", "toaddr", "toid"):
        return {"fn": {"hex32": "HexToByte32", "toaddr": "ToContractAddress", "toid": "ToContractId"}[k], "input": txt(r["s"]), "go_result_code": r["code"]}
    return {"fn": {"attest": "parseAttestToken", "trim": "bytesToString"}.get(k, k), "input_hex": r.get("in"), "go_result_code": r.get("code")}

def mon_key(r, m):
    if "panicked" in m:
        return "panic"
    if "rejected" in m and ("uint8" in m or "toUint8" in m):
        return "rejects-255"
    if "rejected" in m and ("uint16" in m or "toUint16" in m):
        return "rejects-65535"
    if "accepted (wrapped" in m or "do not fit was accepted" in m:
        return "wraps-out-of-range"
    return "mon:" + m[:70]

GOLOCK = threading.Lock()   # the two go test runs of this check share build/mod/<module>/go.mod: one at a time (the Coq comparisons overlap)


def pipeline_part(ctx):
    """X2: the conversions where the running watcher applies them - the real fetchEvents / handleEvents / handleObsvRequest against the HTTP
    simulated node on histories whose events carry boundary and unfit raw fields; every forwarded message re-derived from the
    ground truth (Go monitors) and compared in full with the composed model (model.AlphPipeline) inside Coq"""
    import alph_common as A
    class _P:   # (a name of its own for the overlay and the trace file: this harness runs next to the check's own one, same Go package)
        pid, tier, seed, say = ctx.pid + "P", ctx.tier, ctx.seed, ctx.say
    with GOLOCK:
        rc, out, trace = core.harness_pkg(_P, "alephium_watcher", "^TestVerifPipe$", timeout=900, race=(ctx.tier == "thorough"),
                                          env=None if ctx.tier == "thorough" or os.environ.get("VERIF_W_NF") else {"VERIF_W_NF": "100"})
    rows = [r for r in core.read_jsonl(trace) if r.get("k") == "hist"]
    if rc != 0 or not rows:
        cr = A.parse_crash(out)
        ctx.problem("correspondence", "go harness (alephium watcher, fields family)", ("%s; frames: %s" % (cr[0], "; ".join(cr[1])) if cr else out[-1500:]))
        if not rows:
            return
    hp = [r for r in rows if "harness_panic" in r]
    if hp:
        ctx.problem("machinery", "harness panic", hp[0]["harness_panic"])
    rows = [r for r in rows if "harness_panic" not in r]
    nmon, classes = A.monitors(ctx, rows, "C11")
    ctx.cov["pipeline_monitor_findings"] = classes
    ctx.pipe_stats = (sum(len(r["steps"]) for r in rows), len({(r["id"], i) for r in rows for i, s in enumerate(r["steps"]) if s.get("msgs")}))
    A.pipe_report(ctx, "cases_C11_pipe", rows, "msgs")


def pipeline_start(ctx):
    import threading, traceback

    def work():
        try:
            pipeline_part(ctx)
        except Exception as e:
            traceback.print_exc()
            ctx.problem("machinery", "pipeline part", repr(e))
    th = threading.Thread(target=work)
    th.start()
    return th


def run(ctx):
    try:
        run_main(ctx)
    finally:
        th = getattr(ctx, "pipe_thread", None)
        if th:
            th.join()
        if getattr(ctx, "pipe_stats", None):
            ctx.evaluations += ctx.pipe_stats[0]
            ctx.distinct += ctx.pipe_stats[1]
            ctx.rule += ("; in addition step-driven histories of the real watcher (fetchEvents / handleEvents / handleObsvRequest) against the simulated node whose events carry "
                         "the same boundary / unfit raw values in every field (evaluations = steps; non-trivial = steps that handed at least one message to the signer, each compared in full)")


def run_main(ctx):
    st = core.run_extract(ctx, ["alphconv", "ral_attest", "alph_pipeline"])
    core.coq_prove(ctx, "C11")
    if ctx.tier == "thorough":
        core.coq_thorough_audit(ctx, "C11")
    ctx.pipe_thread = pipeline_start(ctx)   # X2: the conversions inside the running watcher, next to this check's own harness and comparison
    # the harness builds attestation payloads and events the way the contracts do, from the layout extracted just now
    ral = st.get("ral_attest", {})
    env = {"VERIF_C11_RAL": json.dumps(ral["info"])} if ral.get("ok") else {}
    with GOLOCK:
        rc, out, trace = core.harness_pkg(ctx, "alephium", "^TestVerifC11$", env=env)
    rows = core.read_jsonl(trace)
    if rc != 0 or not rows:
        ctx.problem("correspondence", "go harness C11", out[-1500:])
        return
    ctx.evaluations = len(rows)
    wm = [r for r in rows if r["k"] == "wm"]
    ctx.distinct = len({(r["k"], str(r.get("fields", r.get("s", r.get("in")))), r.get("txid")) for r in rows
                        if not (r["k"] == "wm" and r["code"] == 1)})
    ctx.rule = ("ToWormholeMessage on events whose three numeric fields run over the boundary list (0, 254..257, 65534..65537, 2^32, 2^63, 2^64, 2^256 each -1/+0/+1, "
                "negative values down to -2^256, signed / zero-padded / non-numeric / non-ASCII strings), byte-vector fields of every relevant length, odd and invalid hex, "
                "every wrong sdk.Val variant and type string in every position, 0..12 fields, swapped fields, transaction ids of every shape, seeded random events; each accepted "
                "message through toMessagePublication on 20 boundary timestamps; toU256/toUint8/toUint16/toUint64, HexToByte32/ToHex, ToContractAddress/ToContractId, "
                "parseAttestToken, bytesToString called directly; distinct by input, non-trivial = not rejected by the bare field-count test")
    ctx.cov["case_kind_hist"] = {}
    for r in rows:
        kk = r["k"] + (":" + r["kind"] if "kind" in r and r["k"] == "wm" else "")
        ctx.cov["case_kind_hist"][kk] = ctx.cov["case_kind_hist"].get(kk, 0) + 1
    ctx.cov["wm_result_code_hist"] = {}
    for r in wm:
        ctx.cov["wm_result_code_hist"][str(r["code"])] = ctx.cov["wm_result_code_hist"].get(str(r["code"]), 0) + 1
    ctx.cov["wm_fitting_events"] = sum(1 for r in wm if r.get("fits"))
    ctx.cov["wm_accepted"] = sum(1 for r in wm if r["code"] == 0)
    ctx.cov["message_publications"] = sum(len(r.get("mp") or []) for r in wm)
    ctx.cov["nonascii_contract_addresses_recorded_not_compared"] = [
        {"input_hex": r["s"], "panic": r.get("panic", "")} for r in rows if r["k"] == "toid_nonascii"]
    ctx.samples = [describe(r) for r in (wm[:2] + [r for r in rows if r["k"] == "num"][:1])]
    # monitors: the property statement evaluated on the implementation by the harness
    nmon = monitor_rows(ctx, rows, mon_key, lambda r, m: dict(describe(r), monitor=m))
    ctx.cov["monitor_failures"] = nmon
    # python-side monitor: every message publication of one message carries the same non-time fields
    for r in wm:
        mps = r.get("mp") or []
        if r["code"] == 0 and len(mps) != 20:
            ctx.problem("monitor", "toMessagePublication did not return for every timestamp", str(len(mps)), concrete=True, replay=describe(r), key="mp-missing")
            break
        if any((m["txhash"], m["echain"]) != (mps[0]["txhash"], mps[0]["echain"]) for m in mps):
            ctx.problem("monitor", "message publications of one message differ in tx hash / emitter chain", "", concrete=True, replay=describe(r), key="mp-unstable")
            break
    # model vs implementation on every case, inside Coq
    cmp_rows = [r for r in rows if r["k"] != "toid_nonascii"]
    bad = core.run_cases(ctx, "cases_C11", cmp_rows, HDR, "case", gcase, OKDEF,
                         weight=lambda r: 40 * len(r.get("mp") or []) + sum(len(f["s"]) for f in r.get("fields", [])) // 2 + len(r.get("in", "")) // 2 + 20)
    if bad is None:
        return
    for i in bad[:5]:
        r = cmp_rows[i]
        ctx.problem("correspondence", "model differs from the implementation (%s)" % describe(r)["fn"], str(describe(r))[:500], concrete=False, replay=describe(r))
    ctx.cov["traces_validated_against_impl"] = len(cmp_rows)
    ctx.cov["mismatches"] = len(bad)
    ctx.assumptions = ["sdk.Val values carry at most one variant (as produced by the SDK's UnmarshalJSON)",
                       "the conversions inside the running watcher: histories of the fields family against the HTTP simulated node (block hashes / contract addresses abstract, as in C08 / C09)",
                       "base58.Decode is modelled for ASCII strings; for strings with bytes >= 0x80 the library indexes its table by rune and can panic "
                       "(recorded in coverage, outside the property: ToContractId has no caller in the node)",
                       "math/big SetString(s, 10) and btcutil base58 are modelled by their mathematical meaning (optional sign + digits; positional base 58) and tied by the differential run",
                       "header.Timestamp is an int64; seconds of time.Unix do not overflow for |ms| < 2^63"]
