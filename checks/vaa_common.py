import core

HDR = ("From Coq Require Import Uint63.\nFrom Coq Require Import List ZArith Bool Arith Strings.Byte.\n"
       "From WH Require Import lib.Bytes lib.Wire gen.Extracted model.Vaa.\n"
       "Import ListNotations.\nOpen Scope Z_scope.\n")

# header for case files that evaluate the Gallina Keccak-256 (lib/Keccak.v)
HDR_K = HDR.replace("model.Vaa.", "model.Vaa lib.Keccak.")

def gsig(s):
    return "{| s_idx := %d; s_data := B %s |}" % (s["i"], core.gbytes(s["d"]))

def gvaa(r):
    return ("{| version := %d; gsidx := %d; sigs := %s; ts := %s; tns := %s; nonce := %d; echain := %d; tchain := %d; "
            "eaddr := B %s; seq := %s; cl := %d; payload := B %s |}" % (
                r["version"], r["gsidx"], core.glist(gsig(s) for s in r["sigs"]), core.gz(r["secs"]), core.gz(r["nsec"]),
                r["nonce"], r["echain"], r["tchain"], core.gbytes(r["eaddr"]), r["seq"], r["cl"], core.gbytes(r["payload"])))

def monitor_rows(ctx, rows, keyfn, replayfn, limit=5):
    """turn the harness's own monitor messages into concrete problems (deduplicated by message class)"""
    seen = {}
    n = 0
    for r in rows:
        for m in r.get("mon", []):
            n += 1
            k = keyfn(r, m)
            if k in seen:
                continue
            seen[k] = 1
            if len(seen) <= limit:
                ctx.problem("monitor", m, "observed on the implementation", concrete=True, replay=replayfn(r, m), key=k)
    return n
