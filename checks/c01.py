"""C01 — only quorum-signed, verifiable VAAs are ever stored or broadcast."""
import core
import proc_common as P

def run(ctx):
    rows = P.pipeline(ctx, "C01")
    if rows is None:
        return
    ctx.rule = ("generated + scripted histories (guardian sets of size 1..19, every own-key position incl. non-member, signer subsets around the quorum boundary, permutations and duplicates, "
                "forged / non-member / wrong-address / other-digest observations, set changes before/between/after, inbound VAAs valid / under-quorum / other set / corrupted / same id other body, "
                "injections, cleanup ticks) run against the real handlers; monitor: every VAA written to badger or sent as SignedVAAWithQuorum is re-verified with go-ethereum Ecrecover called "
                "directly against the set the harness itself injected, with the literal 2n/3+1; evaluations = histories; distinct non-trivial = distinct op sequences with at least one output")
    pubs = sum(1 for h in rows for s in h["steps"] for x in s["outs"] if x.startswith(("store ", "sendvaa ")))
    ctx.cov["published_or_stored_vaas_checked"] = pubs
    ctx.assumptions = P.COMMON_ASSUMPTIONS
