"""C15 — governance requests become exactly the VAA the contracts parse, or are rejected."""
import os
import core

EXTRACTORS = ["ral_governance", "go_payloads", "go_admin", "go_inject_glue", "ral_gov_glue"]

HDR = ("From Coq Require Import Uint63.\nFrom Coq Require Import List ZArith Bool Arith Strings.Byte.\n"
       "From WH Require Import lib.Bytes lib.Wire gen.Extracted gen.ExtractedGov model.Vaa model.AlphConv model.Governance model.GovernanceRun.\n"
       "Import ListNotations.\nOpen Scope Z_scope.\n")

KINDS = {"guardian_set": 0, "message_fee": 1, "transfer_fee": 2, "contract_upgrade": 3, "register_chain": 4, "bridge_upgrade": 5, "destroy": 6,
         "min_level": 7, "refund": 8, "unset": 9}
ERRS = {"target_chain": 1, "gs_empty": 2, "gs_too_many": 3, "gs_pubkey": 4, "gs_dup": 5, "fee_len": 6, "fee_hex": 7, "amount_len": 8, "recipient_len": 9,
        "amount_hex": 10, "recipient_hex": 11, "payload_hex": 12, "chain_id": 13, "emitter_hex": 14, "emitter_len": 15, "refund_hex": 16, "module_len": 17,
        "emitter_chain": 18, "too_many_seqs": 19, "level": 20, "refund_len": 21, "unset": 22}
OUT = {"ok": 0, "err": 1, "panic": 2}


def B(h):
    return "(B %s)" % core.gbytes(h or "")


def gstr(s):
    """a vS of the harness: literal when nothing is generated"""
    if s is None:
        return "[]"
    if s.get("n", 0) == 0 and not s.get("suf"):
        return B(s.get("pre", ""))
    return "(vs %s %d %d %d %s %s)" % (B(s.get("pre", "")), s["n"], s.get("a", 0), s.get("b", 0), core.gbool(s.get("up", False)), B(s.get("suf", "")))


def gmsg(m):
    q = m.get("seqs")
    seqs = "[]"
    if q:
        seqs = "(vseqs %s %d %s %s)" % (core.glist(core.gz(x) for x in (q.get("l") or [])), q.get("n", 0), core.gz(q.get("a", 0)), core.gz(q.get("b", 0)))
    return "(CM %d %d %s %d %s %s %s %d %s)" % (KINDS[m["kind"]], m["nonce"], core.gz(m["seq"]), m["tchain"], core.glist(gstr(k) for k in (m.get("keys") or [])),
                                              gstr(m.get("s1")), gstr(m.get("s2")), m.get("x", 0), seqs)


def gcase(r):
    sent = core.glist("(%d, %d)" % (core.hash_bytes(s["marshal"]), s["plen"]) for s in r["sent"])
    head = "%d %s %d %d" % (r["gchain"], B(r["gaddr"]), r["ts"], r["gsi"])
    err = ERRS.get(r.get("err", ""), 0 if r["out"] == "ok" else 99)
    if r["via"] == "direct":
        return "CDirect %s %s %d %d %s" % (head, gmsg(r["msgs"][0]), OUT[r["out"]], err, sent)
    return "CInject %s %s %d %d %s" % (head, core.glist(gmsg(m) for m in r["msgs"]), OUT[r["out"]], err, sent)


def weight(r):
    w = 30
    for m in r["msgs"]:
        for s in [m.get("s1"), m.get("s2")] + (m.get("keys") or []):
            if s:
                w += 3 * s.get("n", 0) + len(s.get("pre", "")) // 2 + 5
        q = m.get("seqs")
        if q:
            w += 12 * (q.get("n", 0) + len(q.get("l") or []))
    return w


RAL_FN = {"submitNewGuardianSet": 0, "submitSetMessageFee": 1, "submitTransferFees": 2, "submitContractUpgrade": 3, "parseAndVerifyRegisterChain": 4,
          "upgradeContract": 5, "destroyUnexecutedSequenceContracts": 6, "updateMinimalConsistencyLevel": 7, "updateRefundAddress": 8}
HDR_RAL = ("From Coq Require Import Uint63.\nFrom Coq Require Import Strings.String.\nFrom Coq Require Import List ZArith Bool Arith Strings.Byte.\n"
           "From WH Require Import lib.Bytes lib.Wire lib.Ralph gen.Extracted gen.ExtractedGov model.Vaa model.AlphConv model.Governance model.GovernanceRun.\n"
           "Import ListNotations.\nOpen Scope Z_scope.\n")


def py_parse_upgrade(p):
    """parseContractUpgrade read by hand (independent of both translations): None = abort, else the four parts"""
    def sl(a, b):
        if a > b or b > len(p):
            raise IndexError
        return p[a:b]
    try:
        n = int.from_bytes(sl(33, 35), "big")
        off = 35 + n
        code = sl(35, off)
        if len(p) == off:
            return [code, b"", b"", b""]
        h = sl(off, off + 32)
        off += 32
        il = int.from_bytes(sl(off, off + 2), "big")
        off += 2
        imm = sl(off, off + il)
        off += il
        ml = int.from_bytes(sl(off, off + 2), "big")
        off += 2
        mut = sl(off, off + ml)
        off += ml
        if len(p) != off:
            return None
        return [code, h, imm, mut]
    except IndexError:
        return None


def ral_case(r, fn, payload_hex, go_abort, go_vals, tchain, gsi, entries):
    p = bytes.fromhex(payload_hex)
    L = tchain
    abort = bool(go_abort)
    vals = []
    if fn in ("submitContractUpgrade", "upgradeContract"):
        parts = py_parse_upgrade(p)
        abort = parts is None
        if parts is not None:
            vals = [(n, "b:" + v.hex()) for n, v in zip(["newCode", "prevStateHash", "newEncodedImmutableFields", "newEncodedMutableFields"], parts)]
    else:
        vals = [(n, v) for n, v in sorted((go_vals or {}).items()) if n in entries.get(fn, [])]
        if fn == "submitNewGuardianSet" and len(p) >= 37 and int.from_bytes(p[33:37], "big") != gsi + 1:
            abort = True       # the interpreter does not know guardianSetIndexes[1]; with it, another index fails the +1 test
        if fn == "destroyUnexecutedSequenceContracts" and len(p) >= 37 and p[35:37] == b"\0\0":
            abort = True       # the monitor skips the contract's own `length > 0` guard
        if fn == "parseAndVerifyRegisterChain":
            ch = int.from_bytes(p[33:35], "big") if len(p) >= 35 else -1
            if tchain == 0:
                L = (ch + 1) % 65536
            elif ch == tchain:
                abort = True   # remoteChainId == localChainId
    return {"fn": fn, "tchain": tchain, "gsi": gsi, "L": L, "p": payload_hex, "abort": abort, "vals": vals,
            "req": request_of(r), "go_ral": {"abort": go_abort, "values": go_vals}}


def ral_rows(rows, entries):
    """translator-validation cases: every produced payload that was recorded, and its damaged copies"""
    out = []
    for r in rows:
        for m, s in zip(r["msgs"], r["sent"]):
            fn = s.get("ral_fn")
            if not fn or fn not in RAL_FN or not s.get("payload"):
                continue
            if not s.get("ral_abort", "").startswith("parseAndVerifyGovernanceVAAGeneric"):
                # (otherwise the interpreter stopped at the module / action check of an operator-named module: entry point not run)
                out.append(ral_case(r, fn, s["payload"], s.get("ral_abort", ""), s.get("ral"), s["tchain"], s["gsidx"], entries))
            for v in s.get("ral_variants") or []:
                out.append(ral_case(r, fn, v["payload"], v.get("abort", ""), v.get("ral"), s["tchain"], s["gsidx"], entries))
    return out


def gral(c):
    def gv(v):
        return "RZ %s" % core.gz(int(v[2:])) if v.startswith("n:") else "RB %s" % B(v[2:])
    return "CRal %d %d %d %d %s %s %s" % (RAL_FN[c["fn"]], c["tchain"], c["gsi"], c["L"], B(c["p"]), core.gbool(c["abort"]),
                                        core.glist('("%s"%%string, %s)' % (n, gv(v)) for n, v in ([] if c["abort"] else c["vals"])))


def request_of(r):
    """the compact request of a harness row (what a replay needs)"""
    return {"via": r["via"], "tag": r["tag"], "gchain": r["gchain"], "gaddr": r["gaddr"], "ts": r["ts"], "gsi": r["gsi"], "msgs": r["msgs"],
            "string fields": "pre/suf = hex of raw bytes around the hex encoding (upper case if up) of the n bytes (a + i*b) mod 256",
            "sequences": "l ++ [(a + i*b) mod 2^64 | i < n]"}


def monitors(ctx, rows, limit=14):
    seen = {}
    n = 0
    for r in rows:
        for m in r.get("mon", []):
            n += 1
            k, _, text = m.partition("|")
            if k in seen:
                seen[k] += 1
                continue
            seen[k] = 1
            if len(seen) <= limit:
                rp = request_of(r)
                rp.update({"monitor": m, "outcome": r["out"], "error": r.get("errtext", r.get("err", "")),
                           "produced": [{k2: v for k2, v in s.items() if k2 != "marshal" and not (k2 == "payload" and len(v) > 400)} for s in r["sent"]][:3]})
                ctx.problem("monitor", text, "observed on the implementation (%s, %s)" % (r["via"], r["tag"]), concrete=True, replay=rp, key=k)
    ctx.cov["monitor_messages"] = n
    ctx.cov["monitor_classes"] = seen
    return n


# ------------------------------------------------------------------ X6: governance end to end
HDR_E2E = ("From Coq Require Import Uint63.\nFrom Coq Require Import Strings.String.\nFrom Coq Require Import List ZArith Bool Arith Strings.Byte.\n"
           "From WH Require Import lib.Bytes lib.Wire lib.Ralph gen.Extracted gen.ExtractedGov model.Vaa model.AlphConv model.Governance model.GovernanceRun "
           "model.Processor model.System model.GovPipeline model.GovPipelineRun.\nImport ListNotations.\nOpen Scope Z_scope.\n")
E2E_CODES = {1: "RPC outcome / error kind / digests", 3: "number of injected messages", 4: "published bytes", 5: "contract side (abort / bound values / receivedSequence)"}


def e2e_vals(s, entries):
    return [(n, v) for n, v in sorted((s.get("ral") or {}).items()) if n in entries.get(s.get("ral_fn", ""), [])]


def ge2e(r, entries):
    def gv(v):
        return "RZ %s" % core.gz(int(v[2:])) if v.startswith("n:") else "RB %s" % B(v[2:])
    sent = []
    for s in r["sent"]:
        abort = bool(s.get("ral_abort"))
        vals = [] if abort else e2e_vals(s, entries)
        if not abort and s.get("ral_fn") in ("submitContractUpgrade", "upgradeContract") and s["published"]:
            # the interpreter does not run tokenBridgeFactory.parseContractUpgrade: third reading (py_parse_upgrade) of the payload on the wire
            wire = bytes.fromhex(s["published"][0])
            parts = py_parse_upgrade(wire[6 + 66 * wire[5] + 53:])
            abort = parts is None
            vals = [] if abort else [(n, "b:" + v.hex()) for n, v in zip(["newCode", "prevStateHash", "newEncodedImmutableFields", "newEncodedMutableFields"], parts)]
        sent.append("ES %d %d %s %s %s %s %s" % (KINDS[s["kind"]], s["local"], core.gz(s["seq"]), core.glist(str(core.hash_bytes(p)) for p in s["published"]),
                                                 core.gbool(abort), core.gz(int(s.get("ral_seq") or 0)), core.glist('("%s"%%string, %s)' % (n, gv(v)) for n, v in vals)))
    signs = core.glist(core.glist("(%s, %s)" % (B(d), B(sg)) for d, sg in node) for node in r["signs"])
    recs = core.glist("(%s, %s, %s)" % (B(d), B(sg), "Some %s" % B(a) if a else "None") for d, sg, a in r["rec"])
    err = ERRS.get(r.get("err", ""), 0 if r["out"] == "ok" else 99)
    return "EC %d %s %d %d %s %s %s %d %s %s %d %d %s %s" % (
        r["gchain"], B(r["gaddr"]), r["ts"], r["gsi"], core.glist(gmsg(m) for m in r["msgs"]), core.glist(B(a) for a in r["owns"]),
        core.glist(B(k) for k in r["keys"]), r["gsindex"], signs, recs, OUT[r["out"]], err, core.glist(B(d) for d in r["digests"]), core.glist(sent))


def e2e(ctx, st):
    """three real InjectGovernanceVAA calls -> three real Processor.Run loops -> published bytes -> .ral interpreter; model/GovPipeline.v re-evaluated in Coq"""
    rc, out, trace = core.harness_pkg(ctx, "guardiand", "^TestVerifC15E2E$", env={"VERIF_RAL_DIR": os.path.join(core.REPO, "alephium", "contracts")})
    rows = [r for r in core.read_jsonl(trace) if r.get("k") == "e2e"]
    if rc != 0 or not rows:
        ctx.problem("correspondence", "go harness C15 end to end", out[-1500:])
        return
    for r in rows:
        for k in ("msgs", "sent", "digests", "signs", "rec", "mon"):
            r[k] = r.get(k) or []
    seen = {}
    for r in rows:
        for m in r["mon"]:
            k, _, text = m.partition("|")
            seen[k] = seen.get(k, 0) + 1
            if seen[k] == 1 and len(seen) <= 10:
                rp = request_of(dict(r, via="end to end"))
                rp.update({"monitor": m, "network": r["shape"], "owns": r["owns"], "guardian_set": r["keys"], "outcome": r["out"], "error": r.get("errtext", r.get("err", "")),
                           "injected": [{k2: v for k2, v in s.items() if not (k2 == "published" and sum(len(x) for x in v) > 1200)} for s in r["sent"]][:3]})
                ctx.problem("monitor", text + " (end to end: real InjectGovernanceVAA -> 3 real processors -> contract reading)",
                            "request %d (%s), %s" % (r["id"], r["tag"], r["shape"]), concrete=True, replay=rp, key=k)
    hist = {}
    for r in rows:
        for s in r["sent"]:
            k = "%s:%s" % (s["kind"], "abort" if s.get("ral_abort") else "executed")
            hist[k] = hist.get(k, 0) + 1
    ctx.cov["end_to_end"] = {"requests": len(rows), "rpc_outcomes": {o: sum(1 for r in rows if r["out"] == o) for o in ("ok", "err", "panic")},
                             "messages_published_by_all_nodes": sum(1 for r in rows for s in r["sent"] if all(c >= 1 for c in s["by_node"])),
                             "messages_injected": sum(len(r["sent"]) for r in rows), "kind_contract_hist": hist,
                             "monitor_messages": sum(seen.values()), "monitor_classes": seen}
    ctx.evaluations += len(rows)
    rg, gl = st.get("ral_governance", {}), st.get("ral_gov_glue", {})
    if not (rg.get("ok") and gl.get("ok")):
        return
    entries = {f: d["entries"] for f, d in rg["info"]["functions"].items()}
    nsh = min(14, len(rows))
    idx = sorted(range(len(rows)), key=lambda i: -sum(300 + 6 * s["plen"] for s in rows[i]["sent"]))
    bins = [[] for _ in range(nsh)]
    for n, i in enumerate(idx):
        bins[n % nsh].append(i)
    bins = [sorted(b) for b in bins if b]
    texts = [HDR_E2E + "Definition cases : list ecase := %s.\nDefinition M := Eval vm_compute in map check_e2e cases.\nPrint M.\n"
             % core.glist(ge2e(rows[i], entries) for i in b) for b in bins]
    res = core.coq_eval_many(ctx, "cases_C15e", texts)
    bad = []
    for b, (ok, o) in zip(bins, res):
        m = core.parse_print(o, "M")
        vals = core.zlist(m) if (ok and m is not None) else None
        if vals is None or len(vals) != len(b):
            ctx.problem("correspondence", "cases_C15e evaluation", o[-800:])
            return
        bad += [(i, v) for i, v in zip(b, vals) if v != 0]
    ctx.cov["end_to_end"]["requests_compared_with_pipeline_model"] = len(rows)
    ctx.cov["end_to_end"]["model_mismatches"] = len(bad)
    for i, code in sorted(bad)[:4]:
        r = rows[i]
        rp = request_of(dict(r, via="end to end"))
        rp.update({"network": r["shape"], "owns": r["owns"], "guardian_set": r["keys"], "go_outcome": r["out"], "go_error": r.get("errtext", r.get("err", "")),
                   "go_digests": r["digests"], "go_injected": [{k2: v for k2, v in s.items() if not (k2 == "published" and sum(len(x) for x in v) > 1200)} for s in r["sent"]][:3]})
        ctx.problem("correspondence", "pipeline model differs from the real chain (request %d, %s): %s" % (r["id"], r["tag"], E2E_CODES.get(code, code)),
                    "go: %s %s, %d messages injected" % (r["out"], r.get("err", ""), len(r["sent"])), concrete=False, replay=rp)


def served(ctx):
    """the admin service as node.go builds it (adminServiceRunnable), over gRPC on a unix socket: the same requests to nodes in different guardian-set states
    (incl. none yet: the start-up window) and at different times; a panic in a handler ends that test process"""
    rc, out, trace = core.harness_pkg(ctx, "guardiand", "^TestVerifC15Served$", timeout=900)
    rows = core.read_jsonl(trace)
    done = [r for r in rows if r.get("k") == "c15srv"]
    crash = [l for l in out.split("\n") if l.startswith("panic:") or l.startswith("fatal error:")]
    if crash and not done:
        i = out.index(crash[0])
        frames = [l.strip() for l in out[i:i + 8000].split("\n") if "wormhole-fork/node/" in l and "(" in l][:4]
        ctx.problem("monitor", "a governance request sent to the admin socket crashed the process: `%s`; frames: %s" % (crash[0].strip()[:300], " <- ".join(frames)),
                    "adminServiceRunnable + gRPC over a unix socket, node state: no guardian set learned yet / set 0 / set 5 (in this order)", concrete=True,
                    replay={"test": "TestVerifC15Served", "seed": ctx.seed, "output": out[i:i + 3000]}, key="served:crash")
        return
    if rc != 0 or not done:
        ctx.problem("correspondence", "go harness C15 (served admin socket)", out[-1500:])
        return
    ctx.cov["served_admin_socket"] = {k: v for k, v in done[0].items() if k not in ("k", "mon")}
    seen = set()
    for m in done[0].get("mon") or []:
        k = "served:" + ("state" if "has not learned" in m else "later" if "again later" in m else "timestamp" if "carries timestamp" in m else "digests")
        if k in seen:
            continue
        seen.add(k)
        ctx.problem("monitor", m, "observed through the real admin socket", concrete=True, replay={"test": "TestVerifC15Served", "seed": ctx.seed, "monitor": m}, key=k)


def run(ctx):
    st = core.run_extract(ctx, EXTRACTORS)
    core.coq_prove(ctx, "C15", extra_targets=["model/GovernanceRun.vo", "model/GovPipelineRun.vo"])
    if ctx.tier == "thorough":
        core.coq_thorough_audit(ctx, "C15")
    if not ctx.replay:
        served(ctx)
    rc, out, trace = core.harness_pkg(ctx, "guardiand", "^TestVerifC15$",
                                      env={"VERIF_RAL_DIR": os.path.join(core.REPO, "alephium", "contracts")})
    rows = core.read_jsonl(trace)
    if rc != 0 or not rows:
        ctx.problem("correspondence", "go harness C15", out[-1500:])
        return
    for r in rows:
        r["msgs"] = r.get("msgs") or []
        r["sent"] = r.get("sent") or []
    monitors(ctx, rows)
    ctx.evaluations = len(rows)
    ctx.distinct = len({(r["via"], r["gchain"], r["ts"], r["gsi"], str(r["msgs"])) for r in rows
                        if not (r["out"] == "err" and r.get("err") == "target_chain")})
    ctx.rule = ("the nine conversion functions called directly and through InjectGovernanceVAA (drained injectC) under recover(): chain ids 0..2^32-1 around 65535/65536, "
                "consistency levels around 255/256, 0..65537 sequences, module names of 0/11/31/32/33/64 bytes, hex fields of 62/64/66 digits, odd length, invalid digits, "
                "0x prefix, upper case, 0..257 guardians, duplicate / zero / malformed keys in every spelling, refund addresses of 0..65537 bytes, unset payload oneof, "
                "target chains beyond 65535, several messages per request, other governance emitters, seeded random requests of every kind; end to end: requests of every kind "
                "(and multi-message / partly invalid ones) submitted by three operators to three real processors under two guardian sets; distinct by request, "
                "non-trivial = not rejected by the bare target-chain test")
    hist = {}
    for r in rows:
        for m in r["msgs"]:
            k = "%s:%s:%s" % (r["via"], m["kind"], r["out"] + ("/" + r["err"] if r.get("err") else ""))
            hist[k] = hist.get(k, 0) + 1
    ctx.cov["kind_outcome_hist"] = hist
    ctx.cov["vaas_produced"] = sum(len(r["sent"]) for r in rows)
    ctx.cov["max_payload_bytes"] = max([s["plen"] for r in rows for s in r["sent"]] or [0])
    ctx.samples = [dict(request_of(r), outcome=r["out"], error=r.get("err", "")) for r in rows[:2]]
    # model vs implementation on every request, inside Coq: outcome, error kind, Marshal checksum and payload length of every produced VAA
    bad = core.run_cases(ctx, "cases_C15", rows, HDR, "case", gcase, "", weight=weight)
    if bad is None:
        return
    for i in bad[:5]:
        r = rows[i]
        rp = request_of(r)
        rp.update({"go_outcome": r["out"], "go_error": r.get("errtext", r.get("err", "")),
                   "go_produced": [{k2: v for k2, v in s.items() if k2 != "marshal" and not (k2 == "payload" and len(v) > 400)} for s in r["sent"]][:3]})
        ctx.problem("correspondence", "model differs from the implementation (%s, %s)" % (r["via"], r["tag"]),
                    "go: %s %s, %d VAAs" % (r["out"], r.get("err", ""), len(r["sent"])), concrete=False, replay=rp)
    ctx.cov["traces_validated_against_impl"] = len(rows)
    ctx.cov["mismatches"] = len(bad)
    # translator validation: the generated Gallina parsers on the produced payloads vs the harness's own interpreter of the .ral text
    rg = st.get("ral_governance", {})
    if rg.get("ok"):
        entries = {f: d["entries"] for f, d in rg["info"]["functions"].items()}
        rr = ral_rows(rows, entries)
        badr = core.run_cases(ctx, "cases_C15r", rr, HDR_RAL, "rcase", gral, "Definition ok := okr.", weight=lambda c: len(c["p"]) // 2 + 40)
        if badr is None:
            return
        for i in badr[:5]:
            c = rr[i]
            ctx.problem("correspondence", "generated Gallina parser %s differs from the harness's interpreter of the .ral text" % c["fn"],
                        "expected abort=%s values=%s" % (c["abort"], str(c["vals"])[:300]), concrete=False,
                        replay=dict(c["req"], contract_function=c["fn"], payload_hex=c["p"][:600], interpreter=c["go_ral"]))
        ctx.cov["payloads_parsed_by_generated_ralph"] = len(rr)
        ctx.cov["ralph_translation_mismatches"] = len(badr)
    e2e(ctx, st)
    ctx.assumptions = ["the Ralph parsers are translated statement by statement (assert!, let, assignments, if/return, byteVecSlice!, u256From<N>Byte!, size!, U256 arithmetic with "
                       "overflow abort); statements that do not parse the payload (migrate!, transferTokenFromSelf!, subContractId!, isAssetAddress!, blake2b! state check) are left "
                       "out and listed in the extractor info; byteVecToAddress! is the identity on the bytes",
                       "end to end: the VM's ethEcRecover!(hash, r ++ s ++ (v + 27)) is the node-side recovery oracle on r ++ s ++ v; the liveness window excludes guardian-set changes and "
                       "cleanup ticks at the publishing node; no OTHER own VAA of that node is filed under the request's digest (entries are keyed by digest: the one place a Keccak collision would matter, "
                       "stated on the history); the contract holds the guardian set in force as its current set and the operator names that set's index",
                       "request fields are protobuf-typed (uint32 / uint64 / string): numbers are non-negative",
                       "guardian-set upgrade is stated for current_set_index + 1 < 2^32 (the index is a 4-byte wire field)",
                       "encoding/hex, go-ethereum IsHexAddress / HexToAddress are hand-modelled and tied by the differential run"]
