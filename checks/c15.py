"""C15 — governance requests become exactly the VAA the contracts parse, or are rejected."""
import os
import core

EXTRACTORS = ["ral_governance", "go_payloads"]


def request_of(r):
    """the compact request of a harness row (what a replay needs)"""
    return {"via": r["via"], "tag": r["tag"], "gchain": r["gchain"], "gaddr": r["gaddr"], "ts": r["ts"], "gsi": r["gsi"], "msgs": r["msgs"],
            "string fields": "pre/suf = hex of raw bytes around the hex encoding (upper case if up) of the n bytes (a + i*b) mod 256",
            "sequences": "l ++ [(a + i*b) mod 2^64 | i < n]"}


def monitors(ctx, rows, limit=14):
    seen = {}
    n = 0
    for r in rows:
        for m in r.get("mon", []):
            n += 1
            k, _, text = m.partition("|")
            if k in seen:
                seen[k] += 1
                continue
            seen[k] = 1
            if len(seen) <= limit:
                rp = request_of(r)
                rp.update({"monitor": m, "outcome": r["out"], "error": r.get("errtext", r.get("err", "")),
                           "produced": [{k2: v for k2, v in s.items() if k2 != "marshal" and not (k2 == "payload" and len(v) > 400)} for s in r["sent"]][:3]})
                ctx.problem("monitor", text, "observed on the implementation (%s, %s)" % (r["via"], r["tag"]), concrete=True, replay=rp, key=k)
    ctx.cov["monitor_messages"] = n
    ctx.cov["monitor_classes"] = seen
    return n


def run(ctx):
    core.run_extract(ctx, EXTRACTORS)
    core.coq_prove(ctx, "C15")
    if ctx.tier == "thorough":
        core.coq_thorough_audit(ctx, "C15")
    rc, out, trace = core.harness_pkg(ctx, "guardiand", "^TestVerifC15$",
                                      env={"VERIF_RAL_DIR": os.path.join(core.REPO, "alephium", "contracts")})
    rows = core.read_jsonl(trace)
    if rc != 0 or not rows:
        ctx.problem("correspondence", "go harness C15", out[-1500:])
        return
    monitors(ctx, rows)
    ctx.evaluations = len(rows)
