"""Shared by C01, C02, C03, C13, C14: run the processor harness, compare every history with the Gallina model inside Coq."""
import core, json

HDR = ("From Coq Require Import Uint63.\nFrom Coq Require Import List ZArith Bool Arith Strings.Byte.\n"
       "From WH Require Import lib.Bytes lib.Wire gen.Extracted model.Vaa model.Processor lib.ProcWire.\n"
       "Import ListNotations.\nOpen Scope Z_scope.\n")

def B(h):
    return "(B %s)" % core.gbytes(h or "")

def gop(o):
    k = o["k"]
    if k == "setgs":
        return "SetGS {| keys := %s; gidx := %d |}" % (core.glist(B(x) for x in o.get("keys", [])), o.get("idx", 0))
    if k == "clock":
        return "SetClock (%d * 1000000000)" % o.get("t", 0)
    if k == "msg":
        return ("LocalMsg {| m_tx := %s; m_ts := %s; m_tns := %d; m_nonce := %d; m_seq := %s; m_cl := %d; m_echain := %d; m_tchain := %d; "
                "m_eaddr := %s; m_payload := %s |}" % (B(o.get("tx")), core.gz(o.get("secs", 0)), o.get("nsec", 0), o.get("nonce", 0), o.get("seq", "0"),
                                                        o.get("cl", 0), o.get("echain", 0), o.get("tchain", 0), B(o.get("eaddr")), B(o.get("payload"))))
    if k == "inject":
        return ("Inject {| version := 1; gsidx := %d; sigs := []; ts := %s; tns := %d; nonce := %d; echain := %d; tchain := %d; eaddr := %s; "
                "seq := %s; cl := %d; payload := %s |}" % (o.get("gsidx", 0), core.gz(o.get("secs", 0)), o.get("nsec", 0), o.get("nonce", 0), o.get("echain", 0),
                                                          o.get("tchain", 0), B(o.get("eaddr")), o.get("seq", "0"), o.get("cl", 0), B(o.get("payload"))))
    if k == "obs":
        return "Obs {| o_addr := %s; o_hash := %s; o_sig := %s; o_tx := %s |}" % (B(o.get("addr")), B(o.get("hash")), B(o.get("sig")), B(o.get("tx")))
    if k == "loop":
        return "Loopback %d" % o.get("n", 0)
    if k == "inbound":
        return "InboundVAA %s" % B(o.get("bytes"))
    if k == "cleanup":
        return "Cleanup"
    raise ValueError(k)

def ghist(h):
    kc = core.glist("(%s, %s)" % (B(a), B(b)) for a, b in h["keccak"])
    sg = core.glist("(%s, %s)" % (B(a), B(b)) for a, b in h["sign"])
    rc = core.glist("(%s, %s, %s)" % (B(a), B(b), "Some %s" % B(c) if c else "None") for a, b, c in h["rec"])
    ops = core.glist(gop(o) for o in h["ops"])
    ex = core.glist("(%d, %d, %d)" % (s["oh"], s["sh"], s["ne"]) for s in h["steps"])
    return ("{| h_own := %s; h_gov_chain := %d; h_gov_addr := %s; h_keccak := %s; h_sign := %s; h_rec := %s; h_ops := %s; h_expect := %s |}"
            % (B(h["own"]), h["gov_chain"], B(h["gov_addr"]), kc, sg, rc, ops, ex))

def weight(h):
    return sum(len(json.dumps(o)) for o in h["ops"]) // 2 + 60 * len(h["rec"]) + sum(len(a) + 600 for a, _ in h["keccak"]) // 2

def norm(h):
    for k in ("ops", "steps", "mon", "keccak", "sign", "rec"):
        if h.get(k) is None:
            h[k] = []
    for st in h["steps"]:
        if st.get("outs") is None:
            st["outs"] = []
    return h

def run_harness(ctx):
    rc, out, trace = core.harness_pkg(ctx, "processor", "^TestVerifProc$", timeout=3000)
    rows = [r for r in core.read_jsonl(trace) if r.get("k") == "hist"]
    if rc != 0 or not rows:
        ctx.problem("correspondence", "go harness processor", out[-1500:])
        return None
    return [norm(r) for r in rows]

def compare_with_model(ctx, rows, name):
    """returns list of (history index, first mismatching step) or None on machinery failure.
    Fault-injected histories (store closed, request queue full) are judged by the monitors only: the model has no store faults."""
    all_rows = rows
    keep = [i for i, h in enumerate(all_rows) if not h.get("faults")]
    rows = [all_rows[i] for i in keep]
    ctx.cov["fault_injected_histories_monitors_only"] = len(all_rows) - len(rows)
    res = _compare_with_model(ctx, rows, name)
    if res is None:
        return None
    return [(keep[i], step) for i, step in res]


def _compare_with_model(ctx, rows, name):
    nsh = 14
    idx = sorted(range(len(rows)), key=lambda i: -weight(rows[i]))
    bins = [[] for _ in range(min(nsh, len(rows)))]
    load = [0] * len(bins)
    for i in idx:
        j = load.index(min(load))
        bins[j].append(i)
        load[j] += weight(rows[i]) + 200
    bins = [sorted(b) for b in bins if b]
    texts = []
    for b in bins:
        # check_hist_k: the recorded keccak table of every history is first validated against the Gallina Keccak-256 (lib/Keccak.v), -2 if not
        texts.append(HDR + "Definition cases : list hist := %s.\nDefinition M := Eval vm_compute in map check_hist_k cases.\nPrint M.\n"
                     % core.glist(ghist(rows[i]) for i in b))
    res = core.coq_eval_many(ctx, name, texts, timeout=1500)
    bad = []
    nkbad = 0
    for b, (ok, o) in zip(bins, res):
        m = core.parse_print(o, "M")
        if not ok or m is None:
            ctx.problem("correspondence", name + " evaluation", o[-800:])
            return None
        vals = core.zlist(m)
        if len(vals) != len(b):
            ctx.problem("correspondence", name + " evaluation", "result length mismatch")
            return None
        for i, v in zip(b, vals):
            if v >= 0:
                bad.append((i, v))
            elif v == -2:
                nkbad += 1
                if nkbad <= 2:
                    ctx.problem("correspondence", "a recorded Keccak256 result is not the value of the Gallina keccak256 (lib/Keccak.v)",
                                "history %s: %s" % (rows[i]["id"], keccak_table_diff(rows[i])), concrete=False,
                                replay={"history": rows[i]["id"], "keccak_table": rows[i]["keccak"][:50]})
    ctx.cov["keccak_table_pairs_validated_in_coq"] = sum(len(h["keccak"]) for h in rows)
    ctx.cov["keccak_table_histories_rejected"] = nkbad
    return sorted(bad)


def keccak_table_diff(h):
    """diagnostics only (python): which recorded pair differs from Keccak-256"""
    try:
        import hashlib  # noqa: F401
        from Crypto.Hash import keccak as K  # optional
        for a, b in h["keccak"]:
            if K.new(digest_bits=256, data=bytes.fromhex(a)).hexdigest() != b:
                return "input %s... recorded %s" % (a[:40], b)
    except Exception:
        pass
    return "%d recorded pairs" % len(h["keccak"])

def describe(h, step=None):
    ops = h["ops"] if step is None else h["ops"][:step + 1]
    return {"history": h["id"], "shape": h.get("shape"), "own": h["own"], "ops": ops,
            "impl_steps": (h["steps"] if step is None else h["steps"][:step + 1])}

def coverage(ctx, rows):
    kinds = {}
    outs = {}
    for h in rows:
        for o in h["ops"]:
            k = o["k"] + (":" + o["note"] if o.get("note") else "")
            kinds[k] = kinds.get(k, 0) + 1
        for s in h["steps"]:
            for x in s["outs"]:
                t = x.split()[0]
                outs[t] = outs.get(t, 0) + 1
    ctx.cov["op_kind_hist"] = kinds
    ctx.cov["output_kind_hist"] = outs
    ctx.cov["histories"] = len(rows)
    ctx.cov["ops_total"] = sum(len(h["ops"]) for h in rows)
    shapes = {}
    for h in rows:
        n = h.get("shape", "").split(" ")[0]
        shapes[n] = shapes.get(n, 0) + 1
    ctx.cov["set_size_hist"] = shapes
    ctx.evaluations = len(rows)
    ctx.distinct = len({json.dumps(h["ops"], sort_keys=True) for h in rows if any(s["outs"] for s in h["steps"])})
    ctx.samples = [{"shape": h.get("shape"), "ops": [o["k"] + (":" + o["note"] if o.get("note") else "") for o in h["ops"]][:60],
                    "outputs": [s["outs"] for s in h["steps"] if s["outs"]][:6]} for h in rows[:2]]


# ---------------------------------------------------------------- shared pipeline of C01 / C02 / C13 / C14
def mon_class(line):
    """which property a monitor line of the processor harness belongs to (None = machinery)"""
    if line.startswith("processor panicked"):
        return "C13"
    if line.startswith("C01") or line.startswith("stored VAA disappeared"):
        return "C01"
    if line.startswith("C02") or line.startswith("own observation broadcast"):
        return "C02"
    if line.startswith("C03"):
        return "C03"
    if line.startswith("C14"):
        return "C14"
    if line.startswith("C04"):
        return "C04"
    return None


def mon_key(pid, line):
    """stable class key of a monitor line (used to match open known findings)"""
    import re
    s = re.sub(r'\(\d+ of \d+[^)]*\)', '', line)
    s = re.sub(r'[0-9a-f]{16,}', '', s)
    return pid + ":" + re.sub(r'\W+', '-', s.strip().lower())[:90]


def replay_obj(h, why, upto=None):
    ops = h["ops"] if upto is None else h["ops"][:upto + 1]
    return {"why": why, "histories": [{"id": h["id"], "shape": h.get("shape"), "own": h["own"], "own_key": h.get("own_key"),
                                       "gov_chain": h["gov_chain"], "gov_addr": h["gov_addr"], "ops": ops}],
            "impl_steps": [{"outs": s["outs"], "panic": s.get("panic")} for s in (h["steps"] if upto is None else h["steps"][:upto + 1])][-6:]}


def run_replay(ctx):
    import os
    doc = json.load(open(ctx.replay))
    hs = list(doc.get("histories", []))
    for fi in doc.get("failing_inputs", []):
        hs += fi.get("histories", [])
    if not hs:
        ctx.problem("machinery", "replay file", "no recorded history in %s" % ctx.replay)
        return None
    tmp = os.path.join(core.BUILD, "tmp", "replay_in_%s_%d.json" % (ctx.pid, os.getpid()))
    json.dump({"histories": hs}, open(tmp, "w"))
    rc, out, trace = core.harness_pkg(ctx, "processor", "^TestVerifProcReplay$", timeout=3000, env={"VERIF_REPLAY": tmp})
    os.remove(tmp)
    rows = [r for r in core.read_jsonl(trace) if r.get("k") == "hist"]
    if rc != 0 or not rows:
        ctx.problem("machinery", "go harness processor (replay)", out[-1500:])
        return None
    return [norm(r) for r in rows]


def pipeline(ctx, pid, extra_classes=()):
    """extract -> prove -> harness (or replay) -> model comparison -> monitors of this property"""
    core.run_extract(ctx, (["processor_consts", "quorum_go", "vaa_consts"] if False else ["processor_consts", "quorum_go"])
                     + (["wiring"] if pid in ("C01", "C02") else []))
    core.coq_prove(ctx, pid, extra_targets=["lib/ProcWire.vo"] + (["lib/SysWire.vo"] if pid in ("C01", "C02") else []))
    if ctx.tier == "thorough":
        core.coq_thorough_audit(ctx, pid)
    rows = run_replay(ctx) if ctx.replay else run_harness(ctx)
    if rows is None:
        return None
    coverage(ctx, rows)
    # monitors (the property statement evaluated on the implementation, independent of the model)
    nmon = 0
    seen = set()
    for h in rows:
        for line in h.get("mon") or []:
            c = mon_class(line)
            if pid == "C02" and c == "C01" and "locally assembled" in line:
                # "never publishes ... while fewer than quorum distinct members have signed" is C02's own clause: a locally assembled
                # VAA without a valid quorum of the observation-time set is a C02 violation as much as a C01 one
                c = "C02"
            if line.startswith("processor blocked"):
                # a handler that never returns stalls the processor's only goroutine: nothing is published (C02), retried or
                # expired (C14) any more and the node stops processing inputs (C13)
                c = pid if pid in ("C02", "C13", "C14") else "C13"
            if c is None:
                ctx.problem("machinery", line, "history %s (%s)" % (h["id"], h.get("shape")))
                continue
            if c != pid and c not in extra_classes:
                continue
            nmon += 1
            k = mon_key(pid, line)
            if k in seen:
                continue
            seen.add(k)
            ctx.problem("monitor", line, "observed on the real handlers, history %s (%s), after ops %s"
                        % (h["id"], h.get("shape"), [o["k"] + (":" + o["note"] if o.get("note") else "") for o in h["ops"]][-8:]),
                        concrete=True, replay=replay_obj(h, line), key=k)
    # the real Run loop driven over its channels (select glue; scheduler decides loopback order): monitors only
    if not ctx.replay:
        rc, out, trace = core.harness_pkg(ctx, "processor", "^TestVerifProcRun$", timeout=3000, env={"VERIF_PID": pid})
        runs = [r for r in core.read_jsonl(trace) if r.get("k") == "run"]
        if rc != 0 or not runs:
            ctx.problem("machinery", "go harness processor (Run loop)", out[-1200:])
        ctx.cov["run_loop"] = {"runs": len(runs), "inputs_fed": sum(r["fed"] for r in runs), "broadcast_vaas": sum(r["broadcast_vaas"] for r in runs),
                               "expected_publications": sum(r["expected_publications"] for r in runs)}
        for r in runs:
            for line in r.get("mon") or []:
                c = mon_class(line)
                if c is None:
                    ctx.problem("machinery", line, "Run-loop run %s (%s)" % (r["id"], r.get("shape")))
                elif c == pid or c in extra_classes:
                    nmon += 1
                    k = mon_key(pid, line)
                    if k not in seen:
                        seen.add(k)
                        ctx.problem("monitor", line, "observed on the real Run loop, run %s (%s), seed %d" % (r["id"], r.get("shape"), ctx.seed),
                                    concrete=True, replay={"why": line, "run_loop_run": r["id"], "seed": ctx.seed, "rerun": "VERIF_SEED=%d ./check %s" % (ctx.seed, pid)}, key=k)
    ctx.cov["monitor_lines_for_this_property"] = nmon
    # the network of real processors against model/System.v (C01 / C02 own the network-level statements)
    if not ctx.replay and pid in ("C01", "C02"):
        net_check(ctx, pid, extra_classes)
    # model vs implementation, step by step
    bad = compare_with_model(ctx, rows, "cases_" + pid)
    if bad is None:
        return rows
    ctx.cov["histories_compared_with_model"] = len(rows)
    ctx.cov["traces_validated_against_impl"] = len(rows)
    ctx.cov["model_mismatches"] = len(bad)
    for i, step in bad[:3]:
        h = rows[i]
        ctx.problem("correspondence", "processor model differs from the handlers in history %s (%s) at step %d" % (h["id"], h.get("shape"), step),
                    "op %s ; implementation outputs %s" % (json.dumps(h["ops"][step])[:300], h["steps"][step]["outs"] if step < len(h["steps"]) else "?"),
                    concrete=False, replay=replay_obj(h, "model/implementation divergence at step %d" % step, upto=step))
    return rows


# ---------------------------------------------------------------- the network of processors (system-level composition, model/System.v)
NET_HDR = HDR.replace("model.Processor lib.ProcWire.", "model.Processor model.System lib.ProcWire lib.SysWire.")


def genv(o):
    k = o["k"]
    t = gop(o)
    for a, b in (("SetGS ", "ESetGS "), ("SetClock ", "EClock "), ("LocalMsg ", "EMsg "), ("Inject ", "EInject ")):
        if t.startswith(a):
            return b + t[len(a):]
    if k == "cleanup":
        return "ECleanup"
    raise ValueError("not an environment op: " + k)


def ggossip(o):
    if o["k"] == "obs":
        return "GObs {| o_addr := %s; o_hash := %s; o_sig := %s; o_tx := %s |}" % (B(o.get("addr")), B(o.get("hash")), B(o.get("sig")), B(o.get("tx")))
    if o["k"] == "inbound":
        return "GVaa %s" % B(o.get("bytes"))
    raise ValueError("not a gossip item: " + o["k"])


def gnetop(x):
    t, i, o = x["t"], x["i"], x["op"]
    if t == "env":
        return "WEnv %d (%s)" % (i, genv(o))
    if t == "dlv":
        return "WDeliver %d (%s)" % (i, ggossip(o))
    if t == "adv":
        return "WAdv %d (%s)" % (i, ggossip(o))
    if t == "loop":
        return "WLoop %d %d" % (i, o.get("n", 0))
    raise ValueError(t)


def gnet(h):
    kc = core.glist("(%s, %s)" % (B(a), B(b)) for a, b in h["keccak"])
    sg = core.glist(core.glist("(%s, %s)" % (B(a), B(b)) for a, b in t) for t in h["signs"])
    rc = core.glist("(%s, %s, %s)" % (B(a), B(b), "Some %s" % B(c) if c else "None") for a, b, c in h["rec"])
    ops = core.glist(gnetop(x) for x in h["ops"])
    ex = core.glist("(%d, %d, %d)" % (s["oh"], s["sh"], s["ne"]) for s in h["steps"])
    return ("{| nh_n := %d; nh_owns := %s; nh_gov_chain := %d; nh_gov_addr := %s; nh_keccak := %s; nh_signs := %s; nh_rec := %s; nh_ops := %s; nh_expect := %s |}"
            % (h["n"], core.glist(B(a) for a in h["owns"]), h["gov_chain"], B(h["gov_addr"]), kc, sg, rc, ops, ex))


def norm_net(h):
    for k in ("ops", "steps", "mon", "keccak", "rec", "signs"):
        if h.get(k) is None:
            h[k] = []
    h["signs"] = [t or [] for t in h["signs"]]
    for st in h["steps"]:
        if st.get("outs") is None:
            st["outs"] = []
    return h


def net_weight(h):
    return sum(len(json.dumps(x["op"])) for x in h["ops"]) // 2 + 60 * len(h["rec"]) + sum(len(a) for a, _ in h["keccak"]) // 2


def net_check(ctx, pid, extra_classes=()):
    """3-5 real processors in one process, the test plays the network; monitors of this property + comparison with model/System.v"""
    rc, out, trace = core.harness_pkg(ctx, "processor", "^TestVerifNet$", timeout=3000)
    rows = [norm_net(r) for r in core.read_jsonl(trace) if r.get("k") == "net"]
    if rc != 0 or not rows:
        ctx.problem("machinery", "go harness processor (network)", out[-1200:])
        return
    kinds = {}
    for h in rows:
        for x in h["ops"]:
            k = x["t"] + ":" + x["op"]["k"] + (":" + x["op"]["note"] if x["op"].get("note") else "")
            kinds[k] = kinds.get(k, 0) + 1
    ctx.cov["network"] = {"rounds": len(rows), "nodes_hist": {str(n): sum(1 for h in rows if h["n"] == n) for n in sorted({h["n"] for h in rows})},
                          "network_steps": sum(len(h["ops"]) for h in rows), "fair_rounds": sum(1 for h in rows if h.get("fair")),
                          "publications": sum(h.get("publications", 0) for h in rows), "peer_stores_checked": sum(h.get("peer_stores", 0) for h in rows),
                          "step_kind_hist": kinds}
    seen = set()
    nmon = 0
    for h in rows:
        for line in h["mon"]:
            base = line.split(" [network node")[0]
            c = mon_class(base)
            if c is None:
                ctx.problem("machinery", line, "network round %s (%s)" % (h["id"], h.get("shape")))
                continue
            if c != pid and c not in extra_classes:
                continue
            nmon += 1
            k = mon_key(pid, "net " + base)
            if k in seen:
                continue
            seen.add(k)
            ctx.problem("monitor", base + " (network of real processors)", "network round %s (%s), seed %d, last steps %s"
                        % (h["id"], h.get("shape"), ctx.seed, [(x["t"], x["i"], x["op"]["k"]) for x in h["ops"]][-10:]),
                        concrete=True, replay={"why": line, "network_round": h["id"], "shape": h.get("shape"), "seed": ctx.seed, "owns": h["owns"],
                                               "ops": h["ops"], "rerun": "VERIF_SEED=%d ./check %s" % (ctx.seed, pid)}, key=k)
    ctx.cov["network"]["monitor_lines_for_this_property"] = nmon
    # the System model replays every round inside Coq
    nsh = 14
    idx = sorted(range(len(rows)), key=lambda i: -net_weight(rows[i]))
    bins = [[] for _ in range(min(nsh, len(rows)))]
    load = [0] * len(bins)
    for i in idx:
        j = load.index(min(load))
        bins[j].append(i)
        load[j] += net_weight(rows[i]) + 200
    bins = [sorted(b) for b in bins if b]
    texts = [NET_HDR + "Definition cases : list nhist := %s.\nDefinition M := Eval vm_compute in map check_net cases.\nPrint M.\n"
             % core.glist(gnet(rows[i]) for i in b) for b in bins]
    res = core.coq_eval_many(ctx, "cases_%s_net" % pid, texts, timeout=1500)
    bad = []
    for b, (ok, o) in zip(bins, res):
        m = core.parse_print(o, "M")
        vals = core.zlist(m) if (ok and m is not None) else None
        if vals is None or len(vals) != len(b):
            ctx.problem("correspondence", "System model evaluation (network)", o[-800:])
            return
        bad += [(i, v) for i, v in zip(b, vals) if v >= 0]
    ctx.cov["network"]["rounds_compared_with_system_model"] = len(rows)
    ctx.cov["network"]["model_mismatches"] = len(bad)
    for i, step in sorted(bad)[:3]:
        h = rows[i]
        x = h["ops"][step] if step < len(h["ops"]) else None
        ctx.problem("correspondence", "System model differs from the network of real processors in round %s (%s) at network step %d" % (h["id"], h.get("shape"), step),
                    "step %s ; implementation outputs %s" % (json.dumps(x)[:300], h["steps"][step]["outs"] if step < len(h["steps"]) else "?"),
                    concrete=False, replay={"why": "network model/implementation divergence at step %d" % step, "network_round": h["id"], "seed": ctx.seed,
                                            "owns": h["owns"], "ops": h["ops"][:step + 1]})


COMMON_ASSUMPTIONS = [
    "ECDSA recovery, Keccak and the node's signer are oracles: theorems hold for every recover/keccak/sign function; the correspondence run uses the table of go-ethereum results recorded by the harness"
    " (every recorded Keccak256 pair is re-computed by the executable Gallina Keccak-256 of lib/Keccak.v inside the same vm_compute: check_hist_k)",
    "one atomic step per handler (the processor is a single goroutine); the own-signature fast-path goroutine is the explicit loopback queue whose delivery order the history chooses",
    "guardian sets learned from chain have pairwise distinct keys and at most 256 of them (op_wf); the wire format cannot express more",
    "time: the cleanup clock is virtual (instants rewritten to now-age in whole seconds right before the call); thresholds decided at +-1 s",
    "badger is modelled as a finite map (its durability is C16); prometheus/zap/notifier side effects are not observables",
]
