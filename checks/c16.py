"""C16 — acknowledged VAA writes survive a crash of the node (partial by nature: proof of the wrapper over an abstract
crash-prone engine + SIGKILL fault injection on the real engine)."""
import core
from dbgroup_common import run_cases_retry, coq_prove_retry
from c04 import hist

HDR = ("From Coq Require Import Uint63.\nFrom Coq Require Import List ZArith Bool Arith Strings.Byte.\n"
       "From WH Require Import lib.Bytes lib.Wire gen.Extracted model.Vaa model.Db model.CrashKV model.CrashKVRun.\n"
       "Import ListNotations.\nOpen Scope Z_scope.\n")


def gb(hexs):
    return "(B %s)" % core.gbytes(hexs)


def events(r):
    """the observed history of one kill cycle, restricted to the slots stored by the last steps before the kill, as
    events of the abstract store; returns (gallina list, description per event)"""
    ev, desc = [], []
    n = 0
    gets = []
    if r["k"] == "closed":
        ev += ["XStart %s" % gb(r["vaa"]), "XAbort 0%nat", ("XErr 0%nat" if r.get("store_err") else "XAck 0%nat"), "XGet %s %s (B [0]%%uint63)" % (gb(r["vaa"]), "true" if r.get("found_after") else "false")]
        desc = ["start of the store on the closed database", "the engine refuses the transaction", "what StoreSignedVAA returned", "lookup after reopening"]
        if r.get("found_after"):
            ev[-1] = "XGet %s true %s" % (gb(r["vaa"]), gb(r["vaa"]))
        return ev, desc
    for w in sorted(r.get("window") or [], key=lambda w: (w["g"], w["steps"][0])):
        # steps of one writer are sequential: start, (commit, return) one after the other; the last one may be cut by the kill
        for j, ver, acked, b in zip(w["steps"], w["vers"], w["acked"], w["vaas"]):
            ev.append("XStart %s" % gb(b))
            desc.append("writer %d step %d: store of slot %d version %d starts" % (w["g"], j, w["slot"], ver))
            if acked:
                ev += ["XCommit %d%%nat" % n, "XAck %d%%nat" % n]
                desc += ["... commits", "... returns nil (acknowledged)"]
            elif w["found"] and w["gotver"] == ver:
                ev.append("XCommit %d%%nat" % n)
                desc.append("... commits (not acknowledged before the kill, found after it)")
            n += 1
        if w["found"]:
            res = w.get("bytes") or w["vaas"][w["vers"].index(w["gotver"])]
            gets.append(("XGet %s true %s" % (gb(w["vaas"][0]), gb(res)), "lookup of slot %d of writer %d after the reopen: version %d" % (w["slot"], w["g"], w["gotver"])))
        else:
            gets.append(("XGet %s false (B [0]%%uint63)" % gb(w["vaas"][0]), "lookup of slot %d of writer %d after the reopen: not found" % (w["slot"], w["g"])))
    for k in range(1 + int(r.get("later_kills", 0))):
        ev += ["XCrash %d%%nat" % (len(r.get("empty_left") or []) if k == 0 else 0), "XReopen"]
        desc += ["SIGKILL", "Open on the same directory" if k == int(r.get("later_kills", 0)) else "Open on the same directory by the next writer (killed in turn)"]
    for g, d in gets:
        ev.append(g)
        desc.append(d)
    return ev, desc


def gcase(r):
    return core.glist(events(r)[0])


def replay_of(r, msg=None):
    d = {k: v for k, v in r.items() if k not in ("window", "mon", "vaa")}
    if r.get("window"):
        d["last_steps_before_kill"] = [{k: v for k, v in w.items() if k not in ("vaas",)} for w in r["window"]]
    if msg:
        d["monitor"] = msg
    return d


def mon_key(m):
    for pat, k in (("what a kill inside the creation / deletion", "reopen-empty-log-files"), ("did not reopen", "reopen"), ("is missing after the reopen", "acked-lost"), ("not any VAA stored", "foreign-bytes"),
                   ("although the store of version", "acked-overwrite-lost"), ("present after an earlier reopen", "later-lookup"),
                   ("never written", "foreign-key"), ("cannot have attempted", "foreign-key"), ("closed store", "error-dropped"), ("harness:", "harness")):
        if pat in m:
            return k
    return "other"


def concurrent_users(ctx):
    """the same clause with the handle used as the node uses it (the processor stores, every gRPC request looks up, relayers poll an identifier before it is
    stored): a lookup that starts after StoreSignedVAA has returned finds that VAA (harness shared with C12: TestVerifC12Conc)"""
    rc, out, trace = core.harness_pkg(ctx, "db", "^TestVerifC12Conc$", timeout=1200)
    rows = [r for r in core.read_jsonl(trace) if r.get("k") == "c12conc"]
    if rc != 0 or not rows:
        ctx.problem("correspondence", "go harness C16 (concurrent users of one handle)", out[-1500:])
        return
    r = rows[0]
    ctx.cov["concurrent_users"] = {k: v for k, v in r.items() if k not in ("k", "mon")}
    for m in r.get("mon") or []:
        if "had returned success" in m or "after the concurrent phase" in m:
            ctx.problem("monitor", m, "observed on the real store (%d writers, %d readers, one handle)" % (r.get("writers", 0), r.get("readers", 0)), concrete=True,
                        replay={"monitor": m, "test": "TestVerifC12Conc", "seed": ctx.seed}, key="conc:acknowledged-store-not-found")
            return


def live_handle(ctx):
    """the clause without a kill: every lookup after an acknowledged store returns that VAA intact (lookups before the first store, overwrites, sizes across
    badger's 1 MiB value-log threshold, clean re-opens), judged against the harness's own record"""
    rc, out, trace = core.harness_pkg(ctx, "db", "^TestVerifC16Live$", timeout=1200)
    rows = [r for r in core.read_jsonl(trace) if r.get("k") == "c16live"]
    if rc != 0 or not rows:
        ctx.problem("correspondence", "go harness C16 (one live handle)", out[-1500:])
        return
    r = rows[0]
    ctx.cov["live_handle"] = {k: v for k, v in r.items() if k not in ("k", "mon")}
    seen = set()
    for m in r.get("mon") or []:
        k = "live:" + ("batch" if "batch lookup" in m else "never-stored" if "never stored" in m else "differs" if "differ" in m else "lost" if "had returned success" in m else "other")
        if k in seen:
            continue
        seen.add(k)
        ctx.problem("monitor", m, "observed on the real store (one handle, no kill)", concrete=True, replay={"monitor": m, "seed": ctx.seed, "test": "TestVerifC16Live"}, key=k)


def run(ctx):
    st = core.run_extract(ctx, ["db_store", "db_keys", "vaa_consts"])
    coq_prove_retry(ctx, "C16", extra_targets=["model/CrashKVRun.vo"])
    if ctx.tier == "thorough":
        core.coq_thorough_audit(ctx, "C16")
    live_handle(ctx)
    concurrent_users(ctx)
    rc, out, trace = core.harness_pkg(ctx, "db", "^TestVerifC16$", timeout=3000)
    rows = core.read_jsonl(trace)
    cyc = [r for r in rows if r.get("k") == "cycle"]
    if rc != 0 or not cyc:
        ctx.problem("correspondence", "go harness C16", out[-1500:])
        return
    ctx.evaluations = sum(r["checked"] for r in cyc)
    ctx.distinct = sum(1 for r in cyc if sum(r["acks"]) > 0)
    ctx.rule = ("kill cycles on ONE store directory: a child process (re-exec of the test binary) opens the store with db.Open and stores a seeded stream of signed VAAs "
                "(4 concurrent writers, 1 in 6 stores overwrites an earlier identifier of the cycle with new bytes) through db.StoreSignedVAA, reporting each returned call on a pipe; "
                "SIGKILL 0..300 ms after the first acknowledgement, or 0..250 ms after process start (hits start-up / Open / replay of the previous kill's leftovers), or aimed at the instant a zero-length .mem/.vlog file is visible (the engine is inside the creation or deletion of a log file); directed states: zero-length next .mem / .vlog files planted in every combination seen for real; the verifier reopens "
                "with db.Open and looks up every identifier of the cycle, iterates the cycle's keys, and re-checks identifiers of earlier cycles (all of them in the last cycle); "
                "evaluations = lookups after a reopen; distinct = kill cycles in which at least one store was acknowledged before the kill")
    ctx.cov["kill_cycles"] = len(cyc)
    ctx.cov["cycles_with_acknowledged_stores"] = ctx.distinct
    ctx.cov["acknowledged_stores"] = sum(sum(r["acks"]) for r in cyc)
    ctx.cov["error_returns"] = sum(r["errs"] for r in cyc)
    ctx.cov["kill_mode_hist"] = {}
    for r in cyc:
        k = r["killmode"] + ("" if r["opened"] else " (before the child's Open returned)")
        ctx.cov["kill_mode_hist"][k] = ctx.cov["kill_mode_hist"].get(k, 0) + 1
    ctx.cov["aimed_kills_that_saw_an_empty_log_file"] = sum(1 for r in cyc if r.get("aimed_at"))
    ctx.cov["kills_leaving_empty_log_files_hist"] = hist([len(r.get("empty_left") or []) for r in cyc], [0, 1, 2, 3])
    ctx.cov["reopens_with_planted_empty_memtable_file"] = sum(1 for r in cyc if r.get("planted"))
    ctx.cov["kill_delay_ms_hist"] = hist([r["delay_ms"] for r in cyc], [0, 2, 10, 50, 150, 300])
    ctx.cov["reopen_ms_hist"] = hist([r["reopen_ms"] for r in cyc], [50, 100, 200, 500, 2000])
    ctx.cov["reopens_ok"] = sum(1 for r in cyc if r["reopen_ok"])
    ctx.cov["kills_followed_directly_by_the_next_writer"] = sum(1 for r in cyc if r.get("deferred"))
    ctx.cov["later_kills_before_verification_hist"] = hist([r.get("later_kills", 0) for r in cyc], [0, 1, 2, 3])
    ctx.cov["identifiers_with_expectation_at_end"] = cyc[-1]["total_ids"]
    inflight_found = sum(1 for r in cyc for w in (r.get("window") or []) if w["found"] and w["gotver"] in w["vers"] and not w["acked"][w["vers"].index(w["gotver"])])
    ctx.cov["unacknowledged_stores_found_after_kill"] = inflight_found
    ctx.cov["unacknowledged_stores_lost_by_kill"] = sum(1 for r in cyc for w in (r.get("window") or []) if not w["acked"][-1] and (not w["found"] or w["gotver"] != w["vers"][-1]))
    ctx.cov["extracted"] = (st.get("db_store") or {}).get("info")
    ctx.cov["directed"] = [{k: v for k, v in r.items() if k not in ("mon", "vaa")} for r in rows if r.get("k") in ("leftover", "closed")]
    ctx.samples = [replay_of(r) for r in cyc if sum(r["acks"]) > 0][:2]
    for s in ctx.samples:
        s["last_steps_before_kill"] = s.get("last_steps_before_kill", [])[:3]
    seen = {}
    nmon = 0
    for r in rows:
        for m in r.get("mon") or []:
            nmon += 1
            k = mon_key(m)
            if k in seen:
                continue
            seen[k] = 1
            ctx.problem("monitor", m, "observed on the implementation (kill cycle %s)" % r.get("cycle", "-"), concrete=True, replay=replay_of(r, m), key=k)
    ctx.cov["monitor_failures"] = nmon
    # is every observed cycle (restricted to the stores around the kill) a history of the abstract store?
    cases = [r for r in rows if r.get("k") == "closed" and "vaa" in r] + [r for r in cyc if r.get("window")]
    bad = run_cases_retry(ctx, "cases_C16", cases, HDR, "dcase", gcase, "(* ok : dcase -> bool is WH.model.CrashKVRun.ok *)", ["model/CrashKVRun.vo"],
                          weight=lambda r: 3 * len(r.get("window") or []) + 1)
    if bad is None:
        return
    for i in bad[:3]:
        r = cases[i]
        ev, desc = events(r)
        text = HDR + "Definition c : dcase := %s.\nDefinition M := Eval vm_compute in bad_events c.\nPrint M.\n" % core.glist(ev)
        ok, o = core.coq_eval(ctx, "cases_C16_diag_%d" % i, text)
        m = core.parse_print(o, "M")
        qs = core.zlist(m) if (ok and m is not None) else []
        what = ("event %d is not possible in the abstract crash-prone store: %s (after: %s)" % (qs[0], desc[qs[0]], "; ".join(desc[max(0, qs[0] - 3):qs[0]]))) if qs and qs[0] < len(desc) else "?"
        ctx.problem("correspondence", "observed kill cycle is not a history of the model (CrashKV.v)", "%s %s: %s" % (r["k"], r.get("cycle", ""), what),
                    concrete=False, replay=replay_of(r))
    ctx.cov["cycles_validated_against_model"] = len(cases)
    ctx.cov["events_validated_against_model"] = sum(len(events(r)[0]) for r in cases)
    ctx.cov["mismatches"] = len(bad)
    ctx.assumptions = ["ENGINE CONTRACT (trusted, hypothesis `engine_contract`): badger returns nil from Update only after the write is in a form that survives SIGKILL (value log / WAL written to the page cache), a kill loses only un-returned transactions and each of them entirely, every zero-length .mem/.vlog file a kill leaves fails exactly one badger.Open attempt and is sized by it, and nothing else a kill leaves makes badger.Open fail — exercised by the kill cycles (random, at start-up, aimed at the instant such a file is visible) and by planted combinations of such files, not proved; that db.Open's number of attempts suffices is proved from the extracted loop bound",
                       "process kill, not power loss: badger.DefaultOptions has SyncWrites=false, so an acknowledged write sits in the OS page cache; the property asks for process kills only",
                       "the acknowledgement is observed on a pipe written after StoreSignedVAA returned: a store whose line was not written yet counts as un-acknowledged (may or may not be found)",
                       "identifiers are the Go types' ranges (theorem hypothesis `wf`)"]
