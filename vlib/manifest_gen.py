#!/usr/bin/env python3
"""Regenerates /verif/MANIFEST.json from the table below (kept valid at all times)."""
import json, os
VERIF = os.path.dirname(os.path.dirname(os.path.abspath(__file__)))
ALL = ["C%02d" % i for i in range(1, 21)]

CHECKS = {
 "C07": dict(
   text="Coq theorems over unbounded n about the quorum formulas GENERATED from quorum.go / Messages.sol / governance.ral on every run (equality with floor(2n/3)+1, pairwise agreement, accept-iff for both contracts' count test, >2/3, <=n, list-level quorum intersection); the generated Go formula is additionally run against the real CalculateQuorum on n=0..255 exhaustively + random n inside Coq (vm_compute).",
   note="Trusted: Coq kernel; python extractor's reading of the three arithmetic expressions (Go `/` = Z.quot, Solidity/Ralph `/` = floor on unsigned); contracts are read, not executed; Go int modelled as Z with the no-overflow theorem for n < 2^59.",
   technique="Coq proof over extractor-generated definitions + differential check of the generated Go formula against the Go function",
   design="5 (C07)"),
}

def main():
    checks = []
    for pid in ALL:
        if pid not in CHECKS:
            continue
        c = CHECKS[pid]
        checks.append({
            "property_id": pid,
            "quick_cmd": "./check %s --tier quick" % pid,
            "thorough_cmd": "./check %s --tier thorough" % pid,
            "evidence_file": "/verif/evidence/%s.json" % pid,
            "replay_cmd_template": "./check %s --replay {path}" % pid,
            "engine": "coq-proof+correspondence",
            "level_claimed": {"category": "proof", "text": c["text"], "design_ref": c["design"]},
            "level_note": c["note"],
            "technique": c["technique"],
        })
    na = [{"property_id": pid, "reason": "check not built yet in this development (planned: Coq model + proof + correspondence harness, see DESIGN.md section 5); not claimed until its check runs"}
          for pid in ALL if pid not in CHECKS]
    m = {
        "version": 1,
        "setup_cmd": "./setup.sh",
        "hooks": {
            "guard": "verif",
            "enable": "go test -tags verif -overlay <generated json>: harness files (all `//go:build verif`) are injected by the Go build overlay from /verif/harness; /repo itself carries no hook commits; the overlay also replaces node/pkg/p2p/p2p.go by a copy (regenerated from the working tree) whose Run body is a stub so that packages importing pkg/p2p compile on this toolchain",
            "baseline_off_cmd": "for m in $(cat /w/out/gomods.txt); do MF=$(cd /repo/$m && . /w/out/goenv.sh && gomodflag); (cd /repo/$m && go test $MF -json -vet=off -count=1 -timeout 25m ./...); done",
            "source_commits": [],
            "add_only": True,
        },
        "engines": [{"name": "coq-proof+correspondence", "path": "/verif/check",
                     "serves_properties": [c["property_id"] for c in checks],
                     "kind_free_text": "Coq 8.16.1 theorems over an executable Gallina model; model tied to /repo by source extractors (regenerated every run) and by differential correspondence against the real Go code driven through overlay-injected tests"}],
        "checks": checks,
        "not_applicable": na,
        "notes": "All checks: `./check <ID> --tier quick|thorough`; evidence level `proof`; known findings in /verif/known_findings.json.",
    }
    json.dump(m, open(os.path.join(VERIF, "MANIFEST.json"), "w"), indent=1)

if __name__ == "__main__":
    main()
