#!/usr/bin/env python3
"""Regenerates /verif/MANIFEST.json from the table below (kept valid at all times)."""
import glob, json, os
VERIF = os.path.dirname(os.path.dirname(os.path.abspath(__file__)))
ALL = ["C%02d" % i for i in range(1, 21)]

CHECKS = {}
for f in sorted(glob.glob(os.path.join(VERIF, "checks", "manifest", "C*.json"))):
    CHECKS[os.path.basename(f)[:-5]] = json.load(open(f))

def main():
    checks = []
    for pid in ALL:
        if pid not in CHECKS:
            continue
        c = CHECKS[pid]
        checks.append({
            "property_id": pid,
            "quick_cmd": "./check %s --tier quick" % pid,
            "thorough_cmd": "./check %s --tier thorough" % pid,
            "evidence_file": "/verif/evidence/%s.json" % pid,
            "replay_cmd_template": "./check %s --replay {path}" % pid,
            "engine": "coq-proof+correspondence",
            "level_claimed": {"category": "proof", "text": c["text"], "design_ref": c["design"]},
            "level_note": c["note"],
            "technique": c["technique"],
        })
    na = [{"property_id": pid, "reason": "check not built yet in this development (planned: Coq model + proof + correspondence harness, see DESIGN.md section 5); not claimed until its check runs"}
          for pid in ALL if pid not in CHECKS]
    m = {
        "version": 1,
        "setup_cmd": "./setup.sh",
        "hooks": {
            "guard": "verif",
            "enable": "go test -tags verif -overlay <generated json>: harness files (all `//go:build verif`) are injected by the Go build overlay from /verif/harness; /repo itself carries no hook commits; the overlay also replaces node/pkg/p2p/p2p.go by a copy (regenerated from the working tree) whose Run body is a stub so that packages importing pkg/p2p compile on this toolchain",
            "baseline_off_cmd": "for m in $(cat /w/out/gomods.txt); do MF=$(cd /repo/$m && . /w/out/goenv.sh && gomodflag); (cd /repo/$m && go test $MF -json -vet=off -count=1 -timeout 25m ./...); done",
            "source_commits": [],
            "add_only": True,
        },
        "engines": [{"name": "coq-proof+correspondence", "path": "/verif/check",
                     "serves_properties": [c["property_id"] for c in checks],
                     "kind_free_text": "Coq 8.16.1 theorems over an executable Gallina model; model tied to /repo by source extractors (regenerated every run) and by differential correspondence against the real Go code driven through overlay-injected tests"}],
        "checks": checks,
        "not_applicable": na,
        "notes": "All checks: `./check <ID> --tier quick|thorough`; evidence level `proof`; known findings in /verif/known_findings.json.",
    }
    json.dump(m, open(os.path.join(VERIF, "MANIFEST.json"), "w"), indent=1)

if __name__ == "__main__":
    main()
