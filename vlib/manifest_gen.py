#!/usr/bin/env python3
"""Regenerates /verif/MANIFEST.json from the table below (kept valid at all times)."""
import json, os
VERIF = os.path.dirname(os.path.dirname(os.path.abspath(__file__)))
ALL = ["C%02d" % i for i in range(1, 21)]

CHECKS = {
 "C07": dict(
   text="Coq theorems over unbounded n about the quorum formulas GENERATED from quorum.go / Messages.sol / governance.ral on every run (equality with floor(2n/3)+1, pairwise agreement, accept-iff for both contracts' count test, >2/3, <=n, list-level quorum intersection); the generated Go formula is additionally run against the real CalculateQuorum on n=0..255 exhaustively + random n inside Coq (vm_compute).",
   note="Trusted: Coq kernel; python extractor's reading of the three arithmetic expressions (Go `/` = Z.quot, Solidity/Ralph `/` = floor on unsigned); contracts are read, not executed; Go int modelled as Z with the no-overflow theorem for n < 2^59.",
   technique="Coq proof over extractor-generated definitions + differential check of the generated Go formula against the Go function",
   design="5 (C07)"),
 "C04": dict(
   text="Coq theorems for every VAA value: the signing body's fixed-offset big-endian layout, digest = keccak(keccak(body)) for any keccak, independence of version/set index/signatures/sub-second time/guardian, injectivity of the body on its eight fields, and agreement theorems stating that interpreters over the layouts GENERATED from Messages.sol parseVM and governance.ral parseAndVerifyVAA read from Go's wire form exactly the fields Go wrote and hash exactly Go's body (any number <= 255 of signatures). The Gallina body/marshal are run against SerializeBody/Marshal on generated VAAs (vm_compute), and Go-side monitors re-read the offsets and recompute the double Keccak with x/crypto/sha3.",
   note="Trusted: Coq kernel; the python extractors' reading of Solidity/Ralph (contracts are not executed); Keccak is uninterpreted in theorems; hand-written model of serializeBody/Marshal tied by differential testing.",
   technique="Coq proof (algebraic laws + cross-language layout agreement over extracted layouts) + differential correspondence",
   design="5 (C04)"),
 "C05": dict(
   text="Coq theorems over all VAAs / all byte strings: decode(encode v) = v for every VAA in the representable range (any payload length), every accepted byte string re-encodes to itself and decodes to a completely filled in-range VAA, accepted strings are exactly the encodings (everything else is an error). The decoder model takes its length floor, version and payload-buffer size from the source on every run; it is compared with vaa.Unmarshal (accept/reject, error kind, re-encoding) on round trips, structured mutations and arbitrary strings.",
   note="Trusted: Coq kernel, extractor of the three constants, hand model of Unmarshal tied by differential testing; memory safety of the Go decoder is observed (recover(), input unchanged), not proved.",
   technique="Coq proof (round-trip both directions) over a model parameterised by extracted constants + differential correspondence",
   design="5 (C05)"),
 "C06": dict(
   text="Coq theorem for every recovery function, every address list (any length, with or without repeats) and every VAA: VerifySignatures' model returns true iff indices are strictly increasing from 0, inside the list, each signature recovers over the VAA's digest to the address at its index, and recovered signers are pairwise distinct; corollaries for duplicate/swap/out-of-set and the redundancy of the distinctness test for repeat-free lists. The model is run with the recorded table of go-ethereum Ecrecover results against the real VerifySignatures on real secp256k1 signatures and every single-step corruption.",
   note="Trusted: Coq kernel; ECDSA recovery is an oracle (arbitrary function in theorems, recorded table in the correspondence run); 'any changed body bit is rejected' needs unforgeability and is tested, not proved.",
   technique="Coq proof (iff characterisation for all oracles) + differential correspondence with recorded crypto table",
   design="5 (C06)"),
}

def main():
    checks = []
    for pid in ALL:
        if pid not in CHECKS:
            continue
        c = CHECKS[pid]
        checks.append({
            "property_id": pid,
            "quick_cmd": "./check %s --tier quick" % pid,
            "thorough_cmd": "./check %s --tier thorough" % pid,
            "evidence_file": "/verif/evidence/%s.json" % pid,
            "replay_cmd_template": "./check %s --replay {path}" % pid,
            "engine": "coq-proof+correspondence",
            "level_claimed": {"category": "proof", "text": c["text"], "design_ref": c["design"]},
            "level_note": c["note"],
            "technique": c["technique"],
        })
    na = [{"property_id": pid, "reason": "check not built yet in this development (planned: Coq model + proof + correspondence harness, see DESIGN.md section 5); not claimed until its check runs"}
          for pid in ALL if pid not in CHECKS]
    m = {
        "version": 1,
        "setup_cmd": "./setup.sh",
        "hooks": {
            "guard": "verif",
            "enable": "go test -tags verif -overlay <generated json>: harness files (all `//go:build verif`) are injected by the Go build overlay from /verif/harness; /repo itself carries no hook commits; the overlay also replaces node/pkg/p2p/p2p.go by a copy (regenerated from the working tree) whose Run body is a stub so that packages importing pkg/p2p compile on this toolchain",
            "baseline_off_cmd": "for m in $(cat /w/out/gomods.txt); do MF=$(cd /repo/$m && . /w/out/goenv.sh && gomodflag); (cd /repo/$m && go test $MF -json -vet=off -count=1 -timeout 25m ./...); done",
            "source_commits": [],
            "add_only": True,
        },
        "engines": [{"name": "coq-proof+correspondence", "path": "/verif/check",
                     "serves_properties": [c["property_id"] for c in checks],
                     "kind_free_text": "Coq 8.16.1 theorems over an executable Gallina model; model tied to /repo by source extractors (regenerated every run) and by differential correspondence against the real Go code driven through overlay-injected tests"}],
        "checks": checks,
        "not_applicable": na,
        "notes": "All checks: `./check <ID> --tier quick|thorough`; evidence level `proof`; known findings in /verif/known_findings.json.",
    }
    json.dump(m, open(os.path.join(VERIF, "MANIFEST.json"), "w"), indent=1)

if __name__ == "__main__":
    main()
