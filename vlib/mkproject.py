#!/usr/bin/env python3
"""regenerate coq/_CoqProject from the files present (lib, gen, model, proofs, props); rewrite only on change"""
import glob, os
COQ = os.environ.get("VERIF_COQ") or os.path.join(os.path.dirname(os.path.dirname(os.path.abspath(__file__))), "coq")
def main():
    files = []
    for d in ("lib", "gen", "model", "proofs", "props"):
        files += sorted(os.path.relpath(f, COQ) for f in glob.glob(os.path.join(COQ, d, "*.v")))
    if "gen/Extracted.v" not in files:
        files.append("gen/Extracted.v")
    text = ("-Q . WH\n-arg -w -arg -notation-overridden,-deprecated-hint-without-locality,-deprecated-instance-without-locality\n"
            + "\n".join(files) + "\n")
    p = os.path.join(COQ, "_CoqProject")
    if not os.path.exists(p) or open(p).read() != text:
        open(p, "w").write(text)
if __name__ == "__main__":
    main()
