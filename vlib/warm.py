"""compile (not run) every Go harness once so that the first check does not pay the build"""
import os, sys, json
sys.path.insert(0, os.path.dirname(os.path.abspath(__file__)))
import core
reg = json.load(open(os.path.join(core.VERIF, "harness", "packages.json")))
ctx = core.Ctx("WARM", "quick", 0)
for key, h in reg.items():
    rc, out, _ = core.harness_pkg(ctx, key, "^TestVerifNothing$", race=bool(h.get("race")))
    if rc != 0:
        print("warm: %s failed to build\n%s" % (key, out[-2000:]))
