"""compile (not run) every Go harness once so that the first check does not pay the build"""
import os, sys, json, glob
sys.path.insert(0, os.path.dirname(os.path.abspath(__file__)))
import core
ctx = core.Ctx("WARM", "quick", 0)
for pj in sorted(glob.glob(os.path.join(core.VERIF, "harness", "*", "pkg.json"))):
    key = os.path.basename(os.path.dirname(pj))
    h = json.load(open(pj))
    rc, out, _ = core.harness_pkg(ctx, key, "^TestVerifNothing$", race=bool(h.get("race")))
    if rc != 0:
        print("warm: %s failed to build\n%s" % (key, out[-2000:]))
