"""Build the Go overlay: p2p.go with Run stubbed (regenerated from the working tree) + injected harness files."""
import json, os, re, subprocess, hashlib

REPO = os.environ.get("VERIF_REPO", "/repo")
VERIF = os.path.dirname(os.path.dirname(os.path.abspath(__file__)))
BUILD = os.path.join(VERIF, "build")

GOENV = dict(os.environ, GOFLAGS="-mod=mod", GOPROXY="off", GOSUMDB="off", GOTOOLCHAIN="local",
             GOCACHE=os.environ.get("GOCACHE", os.path.join(BUILD, "gocache")))

def _find_func_body(src, name):
    m = re.search(r'^func %s\(' % re.escape(name), src, re.M)
    if not m:
        return None
    # find the opening brace of the body: first '{' at end of a line after the signature
    i = src.index('{\n', m.end())
    depth = 0
    j = i
    in_str = None
    while j < len(src):
        c = src[j]
        if in_str:
            if c == '\\' and in_str != '`':
                j += 2; continue
            if c == in_str:
                in_str = None
        elif c in '"`\'':
            in_str = c
        elif c == '/' and src[j+1] == '/':
            j = src.index('\n', j); continue
        elif c == '{':
            depth += 1
        elif c == '}':
            depth -= 1
            if depth == 0:
                return i, j + 1
        j += 1
    return None

def make_p2p_stub():
    """returns path of stubbed copy of node/pkg/p2p/p2p.go (cached by content hash)"""
    path = os.path.join(REPO, "node/pkg/p2p/p2p.go")
    src = open(path).read()
    h = hashlib.sha256(src.encode()).hexdigest()[:16]
    os.makedirs(os.path.join(BUILD, "overlay"), exist_ok=True)
    out = os.path.join(BUILD, "overlay", "p2p_stub_%s.go" % h)
    if os.path.exists(out):
        return out
    span = _find_func_body(src, "Run")
    if span is None:
        raise RuntimeError("mkoverlay: func Run not found in p2p.go")
    i, j = span
    stub = src[:i] + '{\n\treturn func(ctx context.Context) error { return errors.New("verif: p2p.Run stubbed") }\n}' + src[j:]
    # drop imports whose package identifier no longer occurs (textual), then let the compiler confirm
    m = re.search(r'^import \((.*?)^\)', stub, re.S | re.M)
    body_wo_imports = stub[:m.start()] + stub[m.end():]
    keep = []
    for line in m.group(1).split('\n'):
        mm = re.match(r'\s*(?:(\w+)\s+)?"([^"]+)"', line)
        if not mm:
            keep.append(line); continue
        alias, ipath = mm.group(1), mm.group(2)
        if alias:
            cands = {alias}
        else:
            parts = ipath.split('/')
            last = parts[-1]
            if re.fullmatch(r'v\d+', last) and len(parts) > 1:
                last = parts[-2]
            cands = {last, last[3:] if last.startswith('go-') else last, last.replace('-', '_')}
        if alias == '_' or any(re.search(r'\b%s\.' % re.escape(c), body_wo_imports) for c in cands):
            keep.append(line)
    stub = stub[:m.start()] + 'import (' + '\n'.join(keep) + ')' + stub[m.end():]
    tmp = out + ".tmp.go"
    for _ in range(40):
        open(tmp, "w").write(stub)
        ov = os.path.join(BUILD, "overlay", "stubprobe.json")
        json.dump({"Replace": {path: tmp}}, open(ov, "w"))
        r = subprocess.run(["go", "build", "-overlay", ov, "-o", "/dev/null", "./pkg/p2p"],
                           cwd=os.path.join(REPO, "node"), env=GOENV, capture_output=True, text=True)
        if r.returncode == 0:
            break
        unused = re.findall(r'"([^"]+)" imported (?:as (\w+) )?and not used', r.stderr)
        if not unused:
            raise RuntimeError("mkoverlay: stub does not build:\n" + r.stderr[-3000:])
        for imp, alias in unused:
            stub, n = re.subn(r'^\s*(?:\w+\s+)?"%s"\s*\n' % re.escape(imp), '', stub, count=1, flags=re.M)
            if n == 0:
                raise RuntimeError("mkoverlay: cannot remove import " + imp)
    else:
        raise RuntimeError("mkoverlay: too many iterations")
    os.replace(tmp, out)
    return out

def make_overlay(name, injected):
    """injected: dict repo-relative target path -> absolute source path under /verif. Returns overlay json path."""
    rep = {os.path.join(REPO, "node/pkg/p2p/p2p.go"): make_p2p_stub()}
    for tgt, srcp in injected.items():
        rep[os.path.join(REPO, tgt)] = srcp
    ov = os.path.join(BUILD, "overlay", "overlay_%s.json" % name)
    json.dump({"Replace": rep}, open(ov, "w"), indent=1)
    return ov

if __name__ == "__main__":
    print(make_p2p_stub())
