"""Build the Go overlay: p2p.go with Run stubbed (regenerated from the working tree) + injected harness files."""
import json, os, re, subprocess, hashlib

REPO = os.environ.get("VERIF_REPO", "/repo")
VERIF = os.path.dirname(os.path.dirname(os.path.abspath(__file__)))
BUILD = os.path.join(VERIF, "build")

GOENV = dict(os.environ, GOFLAGS="-mod=mod", GOPROXY="off", GOSUMDB="off", GOTOOLCHAIN="local",
             GOCACHE=os.environ.get("GOCACHE", os.path.join(BUILD, "gocache")))

def _find_func_body(src, name):
    m = re.search(r'^func %s\(' % re.escape(name), src, re.M)
    if not m:
        return None
    # find the opening brace of the body: first '{' at end of a line after the signature
    i = src.index('{\n', m.end())
    depth = 0
    j = i
    in_str = None
    while j < len(src):
        c = src[j]
        if in_str:
            if c == '\\' and in_str != '`':
                j += 2; continue
            if c == in_str:
                in_str = None
        elif c in '"`\'':
            in_str = c
        elif c == '/' and src[j+1] == '/':
            j = src.index('\n', j); continue
        elif c == '{':
            depth += 1
        elif c == '}':
            depth -= 1
            if depth == 0:
                return i, j + 1
        j += 1
    return None

def make_p2p_stub():
    """returns path of stubbed copy of node/pkg/p2p/p2p.go (cached by content hash)"""
    path = os.path.join(REPO, "node/pkg/p2p/p2p.go")
    src = open(path).read()
    h = hashlib.sha256(src.encode()).hexdigest()[:16]
    os.makedirs(os.path.join(BUILD, "overlay"), exist_ok=True)
    out = os.path.join(BUILD, "overlay", "p2p_stub_%s.go" % h)
    if os.path.exists(out):
        return out
    span = _find_func_body(src, "Run")
    if span is None:
        raise RuntimeError("mkoverlay: func Run not found in p2p.go")
    i, j = span
    stub = src[:i] + '{\n\treturn func(ctx context.Context) error { return errors.New("verif: p2p.Run stubbed") }\n}' + src[j:]
    # drop imports whose package identifier no longer occurs (textual), then let the compiler confirm
    m = re.search(r'^import \((.*?)^\)', stub, re.S | re.M)
    body_wo_imports = stub[:m.start()] + stub[m.end():]
    keep = []
    for line in m.group(1).split('\n'):
        mm = re.match(r'\s*(?:(\w+)\s+)?"([^"]+)"', line)
        if not mm:
            keep.append(line); continue
        alias, ipath = mm.group(1), mm.group(2)
        if alias:
            cands = {alias}
        else:
            parts = ipath.split('/')
            last = parts[-1]
            if re.fullmatch(r'v\d+', last) and len(parts) > 1:
                last = parts[-2]
            cands = {last, last[3:] if last.startswith('go-') else last, last.replace('-', '_')}
        if alias == '_' or any(re.search(r'\b%s\.' % re.escape(c), body_wo_imports) for c in cands):
            keep.append(line)
    stub = stub[:m.start()] + 'import (' + '\n'.join(keep) + ')' + stub[m.end():]
    tmp = out + ".tmp.go"
    for _ in range(40):
        open(tmp, "w").write(stub)
        ov = os.path.join(BUILD, "overlay", "stubprobe.json")
        json.dump({"Replace": {path: tmp}}, open(ov, "w"))
        r = subprocess.run(["go", "build", "-overlay", ov, "-o", "/dev/null", "./pkg/p2p"],
                           cwd=os.path.join(REPO, "node"), env=GOENV, capture_output=True, text=True)
        if r.returncode == 0:
            break
        unused = re.findall(r'"([^"]+)" imported (?:as (\w+) )?and not used', r.stderr)
        if not unused:
            raise RuntimeError("mkoverlay: stub does not build:\n" + r.stderr[-3000:])
        for imp, alias in unused:
            stub, n = re.subn(r'^\s*(?:\w+\s+)?"%s"\s*\n' % re.escape(imp), '', stub, count=1, flags=re.M)
            if n == 0:
                raise RuntimeError("mkoverlay: cannot remove import " + imp)
    else:
        raise RuntimeError("mkoverlay: too many iterations")
    os.replace(tmp, out)
    return out

def make_overlay(name, injected):
    """injected: dict repo-relative target path -> absolute source path under /verif. Returns overlay json path.
    A harness whose pkg.json (next to its injected files) says `"p2p": "tcp"` gets the REAL p2p.go with only the transport
    changed (make_p2p_tcp) instead of the Run stub; everybody else gets the stub as before."""
    if p2p_variant(injected) == "tcp":
        rep = dict(make_p2p_tcp())
    else:
        rep = {os.path.join(REPO, "node/pkg/p2p/p2p.go"): make_p2p_stub()}
    for tgt, srcp in injected.items():
        rep[os.path.join(REPO, tgt)] = srcp
    ov = os.path.join(BUILD, "overlay", "overlay_%s.json" % name)
    json.dump({"Replace": rep}, open(ov, "w"), indent=1)
    return ov

# ------------------------------------------------------------------ the real p2p.Run over TCP (extension X5)
# environment a `go` command needs so that the overlay of a file inside the module cache is honoured (the module index
# cache of the go command is built from the un-overlaid files)
TCP_ENV = {"GODEBUG": "goindex=0"}

TCP_ANCHORS = [
    # (what, regex on the working tree's p2p.go, replacement)
    ("quic transport import",
     r'^(\s*)libp2pquic "github\.com/libp2p/go-libp2p/p2p/transport/quic"[ \t]*$',
     r'\1libp2ptcp "github.com/libp2p/go-libp2p/p2p/transport/tcp"'),
    ("libp2p.Transport(libp2pquic.NewTransport)",
     r'libp2p\.Transport\(libp2pquic\.NewTransport\)',
     r'libp2p.Transport(libp2ptcp.NewTCPTransport)'),
    ("ip4 quic listen address",
     r'fmt\.Sprintf\("/ip4/0\.0\.0\.0/udp/%d/quic", port\)',
     r'fmt.Sprintf("/ip4/127.0.0.1/tcp/%d", port)'),
    ("ip6 quic listen address",
     r'fmt\.Sprintf\("/ip6/::/udp/%d/quic", port\)',
     r'fmt.Sprintf("/ip4/127.0.0.1/tcp/%d", port)'),
]


def p2p_variant(injected):
    """"tcp" when the pkg.json in the directory of one of the injected harness files asks for it, else "stub" """
    for srcp in injected.values():
        pj = os.path.join(os.path.dirname(srcp), "pkg.json")
        try:
            if json.load(open(pj)).get("p2p") == "tcp":
                return "tcp"
        except (OSError, ValueError):
            pass
    return "stub"


def _libp2p_dir():
    """directory of the go-libp2p module the working tree's node/go.mod selects"""
    r = subprocess.run(["go", "list", "-m", "-f", "{{.Dir}}", "github.com/libp2p/go-libp2p"],
                       cwd=os.path.join(REPO, "node"), env=GOENV, capture_output=True, text=True)
    d = r.stdout.strip()
    if r.returncode != 0 or not d or not os.path.isdir(d):
        raise RuntimeError("mkoverlay: cannot locate module github.com/libp2p/go-libp2p: " + (r.stderr or r.stdout)[-500:])
    return d


def make_p2p_tcp():
    """returns {path to replace: replacement file}: (1) node/pkg/p2p/p2p.go of the working tree with ONLY the transport changed
    (quic import -> tcp import, libp2p.Transport(quic) -> TCP, the two listen addresses -> /ip4/127.0.0.1/tcp/<port>), every
    other byte — in particular all of the receive / dispatch loop of Run — is the working tree's; regenerated on every call;
    (2) go-libp2p's defaults.go without the QUIC entry of DefaultTransports (the root package imports the QUIC transport only
    for that default, which p2p.Run overrides with an explicit libp2p.Transport option anyway).
    Raises RuntimeError (machinery problem) when an anchor is missing.  Commands using the result need TCP_ENV."""
    path = os.path.join(REPO, "node/pkg/p2p/p2p.go")
    src = open(path).read()
    out = src
    for what, pat, repl in TCP_ANCHORS:
        out, n = re.subn(pat, repl, out, flags=re.M)
        if n != 1:
            raise RuntimeError("mkoverlay(tcp): anchor `%s` found %d times in p2p.go (exactly 1 expected)" % (what, n))
    if "quic" in re.sub(r'//[^\n]*', '', out).lower():
        raise RuntimeError("mkoverlay(tcp): p2p.go still mentions quic outside comments after the transport swap")
    # exactly the four anchored lines differ; every other line of the file is the working tree's
    a, b = src.split("\n"), out.split("\n")
    if len(a) != len(b) or sum(1 for x, y in zip(a, b) if x != y) != len(TCP_ANCHORS):
        raise RuntimeError("mkoverlay(tcp): the transport swap changed something else than its %d anchored lines" % len(TCP_ANCHORS))
    os.makedirs(os.path.join(BUILD, "overlay"), exist_ok=True)
    h = hashlib.sha256(out.encode()).hexdigest()[:16]
    outp = os.path.join(BUILD, "overlay", "p2p_tcp_%s.go" % h)
    tmp = outp + ".%d.tmp" % os.getpid()
    open(tmp, "w").write(out)
    os.replace(tmp, outp)
    # libp2p root package: drop the QUIC default transport
    ld = _libp2p_dir()
    dpath = os.path.join(ld, "defaults.go")
    dsrc = open(dpath).read()
    dnew, n1 = re.subn(r'^\s*(\w+) "github\.com/libp2p/go-libp2p/p2p/transport/quic"[ \t]*\n', '', dsrc, flags=re.M)
    dnew, n2 = re.subn(r'^\s*Transport\(quic\.NewTransport\),[ \t]*\n', '', dnew, flags=re.M)
    if n1 != 1 or n2 != 1 or "quic" in re.sub(r'//[^\n]*', '', dnew):
        raise RuntimeError("mkoverlay(tcp): go-libp2p defaults.go does not have the expected QUIC import / default transport entry")
    dh = hashlib.sha256(dnew.encode()).hexdigest()[:16]
    doutp = os.path.join(BUILD, "overlay", "libp2p_defaults_%s.go" % dh)
    tmp = doutp + ".%d.tmp" % os.getpid()
    open(tmp, "w").write(dnew)
    os.replace(tmp, doutp)
    return {path: outp, dpath: doutp}


if __name__ == "__main__":
    print(make_p2p_stub())
