"""Common machinery of the /verif checks: extract -> prove -> run implementation -> run model -> monitor -> decide."""
import fcntl, glob, hashlib, json, os, re, shutil, subprocess, sys, time

VERIF = os.path.dirname(os.path.dirname(os.path.abspath(__file__)))
REPO = os.environ.get("VERIF_REPO", "/repo")
BUILD = os.path.join(VERIF, "build")
COQ = os.path.join(VERIF, "coq")
# a run against another tree than /repo (mutation testing with VERIF_REPO=<worktree>) gets a private copy of the Coq
# development (incl. its own Extracted.v and .vo files), so that it cannot disturb runs against /repo itself
ALT = None
if os.path.realpath(REPO) != "/repo":
    ALT = os.path.join(BUILD, "alt_" + hashlib.sha1(os.path.realpath(REPO).encode()).hexdigest()[:10])
    COQ = os.path.join(ALT, "coq")
    os.makedirs(COQ, exist_ok=True)
    os.environ["VERIF_COQ"] = COQ
    # gen/*.v and gen/*.vo are copied together with everything else (a consistent set); the extraction that follows rewrites a
    # generated file only if the other tree's source makes its content differ, and make then rebuilds what depends on it
    subprocess.run(["rsync", "-a", "--delete", "--exclude", "run/",
                    "--exclude", "Makefile*", "--exclude", ".Makefile.d", "--exclude", "_CoqProject",
                    os.path.join(VERIF, "coq") + "/", COQ + "/"], check=False)
sys.path.insert(0, os.path.join(VERIF, "gen"))
sys.path.insert(0, os.path.join(VERIF, "vlib"))
import overlay as ovl  # noqa: E402

GOENV = dict(os.environ, GOFLAGS="-mod=mod", GOPROXY="off", GOSUMDB="off", GOTOOLCHAIN="local",
             CARGO_NET_OFFLINE="true", PIP_NO_INDEX="1")

KERNEL_TB = [
    "Coq 8.16.1 kernel (Debian package); coqc full .vo build (no -vos/-vok); vm_compute used in finite sweeps/witnesses and in run/cases_*.v; native_compute not used",
    "no Axiom/Parameter/Admitted/admit in the development (grepped by the thorough tier); Print Assumptions output recorded below per theorem",
]


class Ctx:
    def __init__(self, pid, tier, seed, replay=None):
        self.pid = pid
        self.tier = tier
        self.seed = seed
        self.replay = replay
        self.t0 = time.time()
        self.problems = []      # dict(kind, name, detail, concrete(bool), replay(obj), key)
        self.cov = {}           # coverage extras
        self.samples = []
        self.assumptions = []
        self.trusted = list(KERNEL_TB)
        self.theorems = []      # (name, assumptions)
        self.evaluations = 0
        self.distinct = 0
        self.rule = ""
        self.log = []
        self.known_printed = []
        os.makedirs(os.path.join(BUILD, "tmp"), exist_ok=True)
        os.makedirs(os.path.join(BUILD, "replay"), exist_ok=True)
        os.makedirs(os.path.join(VERIF, "evidence"), exist_ok=True)

    def say(self, *a):
        msg = " ".join(str(x) for x in a)
        self.log.append(msg)
        print("[%s %6.1fs] %s" % (self.pid, time.time() - self.t0, msg), flush=True)

    def problem(self, kind, name, detail, concrete=False, replay=None, key=None):
        self.problems.append(dict(kind=kind, name=name, detail=detail, concrete=concrete, replay=replay, key=key))
        self.say("PROBLEM %s %s: %s" % (kind, name, str(detail)[:600]))


# ------------------------------------------------------------------ step 1: extractors
def run_extract(ctx, needed):
    import extract
    st = extract.main()
    for name in needed:
        s = st.get(name)
        if s is None:
            ctx.problem("extractor", name, "extractor not registered")
        elif not s["ok"]:
            ctx.problem("extractor", name, s["error"])
    ctx.cov["extractors"] = {n: (st[n].get("info") if st[n]["ok"] else "BROKEN " + st[n]["error"]) for n in needed if n in st}
    return st


# ------------------------------------------------------------------ step 2: Coq build
class BuildLock:
    def __enter__(self):
        os.makedirs(BUILD, exist_ok=True)
        self.f = open(os.path.join(ALT or BUILD, ".lock"), "w")
        fcntl.flock(self.f, fcntl.LOCK_EX)
        return self

    def __exit__(self, *a):
        fcntl.flock(self.f, fcntl.LOCK_UN)
        self.f.close()


def coq_make(targets, timeout=1500):
    """make the given .vo targets (relative to coq/). returns (ok, output)"""
    import mkproject
    with BuildLock():
        mkproject.main()
        if not os.path.exists(os.path.join(COQ, "Makefile")) or \
           os.path.getmtime(os.path.join(COQ, "Makefile")) < os.path.getmtime(os.path.join(COQ, "_CoqProject")):
            subprocess.run(["coq_makefile", "-f", "_CoqProject", "-o", "Makefile"], cwd=COQ, capture_output=True)
        r = subprocess.run(["timeout", str(timeout), "make", "-j16"] + targets, cwd=COQ, capture_output=True, text=True)
        return r.returncode == 0, r.stdout + r.stderr


def coq_prove(ctx, prop_file, extra_targets=()):
    """build props/<prop_file>.vo (+deps), then re-run coqc on the props file to capture Print Assumptions."""
    tgt = "props/%s.vo" % prop_file
    ok, out = coq_make([tgt] + list(extra_targets))
    src = open(os.path.join(COQ, "props", prop_file + ".v")).read()
    names = re.findall(r'^(?:Theorem|Lemma|Corollary)\s+(\w+)', src, re.M)
    examples = re.findall(r'^Example\s+(\w+)', src, re.M)
    ctx.cov["obligations"] = len(names) + len(examples)
    ctx.cov["obligation_names"] = names + examples
    if not ok:
        m = re.search(r'File "([^"]+)", line (\d+)[^\n]*\n(Error:.*?)(?:\n\n|\nmake)', out, re.S)
        where = "%s:%s %s" % (m.group(1), m.group(2), m.group(3).strip()[:400]) if m else out[-800:]
        # which theorem? the first theorem at/after the failing line of the props file, else the lemma file
        thm = None
        if m and m.group(1).endswith("props/%s.v" % prop_file):
            line = int(m.group(2))
            upto = "\n".join(src.split("\n")[:line])
            prev = re.findall(r'^(?:Theorem|Lemma|Corollary|Example)\s+(\w+)', upto, re.M)
            thm = prev[-1] if prev else None
        ctx.problem("theorem", thm or ("build of " + tgt), where)
        ctx.cov["discharged"] = 0
        return False
    # capture Print Assumptions
    with BuildLock():
        r = subprocess.run(["timeout", "600", "coqc", "-Q", ".", "WH", "-w", "-notation-overridden",
                            "props/%s.v" % prop_file], cwd=COQ, capture_output=True, text=True)
    if r.returncode != 0:
        ctx.problem("theorem", "props/%s.v" % prop_file, (r.stdout + r.stderr)[-800:])
        ctx.cov["discharged"] = 0
        return False
    blocks = re.split(r'\n(?=Closed under the global context|Axioms:)', "\n" + r.stdout)
    pa = [b.strip() for b in blocks if b.strip().startswith(("Closed under", "Axioms:"))]
    printed = re.findall(r'^Print Assumptions (\w+)\.', src, re.M)
    ass = {}
    for nm, b in zip(printed, pa):
        ass[nm] = " ".join(b.split())
    ctx.cov["print_assumptions"] = ass
    nonclosed = {k: v for k, v in ass.items() if not v.startswith("Closed under the global context")}
    if nonclosed:
        ctx.trusted.append("axioms reported by Print Assumptions: " + json.dumps(nonclosed))
    else:
        ctx.trusted.append("Print Assumptions: all %d property theorems 'Closed under the global context'" % len(ass))
    missing = [n for n in names if n not in ass]
    if missing:
        ctx.cov["no_print_assumptions_for"] = missing
    ctx.cov["discharged"] = len(names) + len(examples)
    ctx.cov["checker_cmd"] = "cd /verif/coq && make -j16 props/%s.vo && coqc -Q . WH props/%s.v" % (prop_file, prop_file)
    return True


def coq_thorough_audit(ctx, prop_file):
    """grep for forbidden declarations; coqchk on the property's .vo"""
    bad = subprocess.run("grep -rnE '\\b(Admitted|admit|Axiom|Parameter|Conjecture|Admit Obligations)\\b|Unset Guard|bypass_check|type-in-type|impredicative-set' "
                         "--include=*.v lib model proofs props gen 2>/dev/null | grep -v '^[^:]*:[0-9]*: *(\\*' || true",
                         shell=True, cwd=COQ, capture_output=True, text=True).stdout.strip()
    ctx.cov["forbidden_grep"] = bad or "none"
    if bad:
        ctx.problem("theorem", "forbidden declaration", bad[:600])
    if os.environ.get("VERIF_COQCHK", "1") == "1":
        with BuildLock():
            r = subprocess.run(["timeout", "3000", "coqchk", "-silent", "-o", "-Q", ".", "WH", "WH.props." + prop_file],
                               cwd=COQ, capture_output=True, text=True)
        tail = (r.stdout + r.stderr).strip()
        ctx.cov["coqchk"] = tail[-1500:]
        if r.returncode != 0:
            ctx.problem("theorem", "coqchk " + prop_file, tail[-600:])


# ------------------------------------------------------------------ step 3: run the implementation (Go, overlay)
def go_modfile(module):
    """copy go.mod/go.sum of the working tree to build/mod/<module>/ (never rewrite /repo)"""
    # one copy per driver process: the go command may rewrite the -modfile copy (and its go.sum), so two checks running at the same
    # time must not share one
    base = os.path.join(ALT or BUILD, "mod")
    import threading
    d = os.path.join(base, "%s.%d.%d" % (module.replace("/", "_"), threading.get_ident() % 1000003, os.getpid()))
    os.makedirs(d, exist_ok=True)
    for f in ("go.mod", "go.sum"):
        src = os.path.join(REPO, module, f)
        if os.path.exists(src):
            tmp = os.path.join(d, f + ".tmp")
            shutil.copyfile(src, tmp)
            os.replace(tmp, os.path.join(d, f))
    # forget the copies of drivers that are gone (best effort)
    try:
        for n in os.listdir(base):
            pid = n.rsplit(".", 1)[-1]
            if pid.isdigit() and int(pid) != os.getpid() and not os.path.exists("/proc/" + pid):
                shutil.rmtree(os.path.join(base, n), ignore_errors=True)
    except OSError:
        pass
    return os.path.join(d, "go.mod")


def go_harness(ctx, module, pkg, run_regex, injected, env=None, timeout=900, race=False, extra_args=()):
    """go test -tags verif -overlay ... -run <regex> <pkg> in /repo/<module>; injected = {repo-rel target: /verif file}.
    returns (rc, output, outfile) ; the harness writes JSON lines to $VERIF_OUT"""
    name = "%s_%s%s" % (ctx.pid, re.sub(r'\W+', '_', pkg), ("_" + os.path.basename(ALT)) if ALT else "")
    if module == "node":
        ov = ovl.make_overlay(name, injected)
    else:
        rep = {os.path.join(REPO, t): s for t, s in injected.items()}
        ov = os.path.join(BUILD, "overlay", "overlay_%s.json" % name)
        os.makedirs(os.path.dirname(ov), exist_ok=True)
        json.dump({"Replace": rep}, open(ov, "w"), indent=1)
    out = os.path.join(BUILD, "tmp", "trace_%s_%d.jsonl" % (name, os.getpid()))
    if os.path.exists(out):
        os.remove(out)
    e = dict(GOENV)
    e["VERIF_OUT"] = out
    e["VERIF_SEED"] = str(ctx.seed)
    e["VERIF_TIER"] = ctx.tier
    e["VERIF_TMP"] = os.path.join(BUILD, "tmp")
    if env:
        e.update(env)
    cmd = ["go", "test", "-tags", "verif", "-overlay", ov, "-modfile", go_modfile(module), "-vet=off", "-count=1",
           "-timeout", "%ds" % timeout, "-run", run_regex]
    if race:
        cmd.append("-race")
    cmd += list(extra_args) + [pkg]
    t = time.time()
    r = subprocess.run(cmd, cwd=os.path.join(REPO, module), env=e, capture_output=True, text=True)
    ctx.say("go harness %s %s rc=%d (%.1fs)" % (pkg, run_regex, r.returncode, time.time() - t))
    return r.returncode, r.stdout + r.stderr, out


def harness_pkg(ctx, key, run_regex, **kw):
    """run the harness registered under `key` in harness/packages.json: every .go file of its dir is injected"""
    reg = json.load(open(os.path.join(VERIF, "harness", key, "pkg.json")))
    inj = {}
    for f in sorted(glob.glob(os.path.join(VERIF, "harness", key, "*.go"))):
        inj[os.path.join(reg["target"], os.path.basename(f))] = f
    return go_harness(ctx, reg["module"], reg["pkg"], run_regex, inj, **kw)


def read_jsonl(path):
    rows = []
    if not os.path.exists(path):
        return rows
    with open(path) as f:
        for line in f:
            line = line.strip()
            if line:
                rows.append(json.loads(line))
    return rows


# ------------------------------------------------------------------ step 4: run the model inside Coq
def coq_eval(ctx, name, text, timeout=900):
    """write coq/run/<name>.v and compile it with unlimited stack; returns (ok, stdout)"""
    d = os.path.join(COQ, "run")
    os.makedirs(d, exist_ok=True)
    shown = name
    name = "%s_p%d" % (name, os.getpid())   # two runs of the same check at the same time must not share a case file
    p = os.path.join(d, name + ".v")
    open(p, "w").write(text)
    cmd = "ulimit -s unlimited 2>/dev/null; timeout %d coqc -Q . WH -w -notation-overridden run/%s.v" % (timeout, name)
    t = time.time()
    r = subprocess.run(["bash", "-c", cmd], cwd=COQ, capture_output=True, text=True)
    ctx.say("coq eval %s rc=%d (%.1fs)" % (shown, r.returncode, time.time() - t))
    if r.returncode == 0:
        try:
            os.remove(p)       # kept only when the evaluation failed (for inspection)
        except OSError:
            pass
    for ext in (".vo", ".vok", ".vos", ".glob"):
        try:
            os.remove(os.path.join(d, name + ext))
        except OSError:
            pass
    try:
        os.remove(os.path.join(d, "." + name + ".aux"))
    except OSError:
        pass
    return r.returncode == 0, r.stdout + r.stderr


def coq_eval_many(ctx, name, texts, timeout=900, jobs=14):
    """evaluate several generated files concurrently; returns list of (ok, output) in order"""
    from concurrent.futures import ThreadPoolExecutor
    with ThreadPoolExecutor(max_workers=jobs) as ex:
        futs = [ex.submit(coq_eval, ctx, "%s_%d" % (name, i), t, timeout) for i, t in enumerate(texts)]
        return [f.result() for f in futs]


def hash_bytes(b):
    if isinstance(b, str):
        b = bytes.fromhex(b)
    p = (1 << 61) - 1
    acc = len(b)
    i = 0
    while len(b) - i >= 7:
        acc = (acc * 1000003 + int.from_bytes(b[i:i + 7], "big") + 1) % p
        i += 7
    if i < len(b):
        acc = (acc * 1000003 + int.from_bytes(b[i:], "big") + 7) % p
    return acc


def shards(rows, n):
    """split rows into at most n contiguous shards of nearly equal size; returns list of (start, rows)"""
    if not rows:
        return []
    n = max(1, min(n, len(rows)))
    size = (len(rows) + n - 1) // n
    return [(i, rows[i:i + size]) for i in range(0, len(rows), size)]


def run_cases(ctx, name, rows, header, case_type, gcase, okdef, nshards=14, weight=None):
    """generic model-vs-implementation comparison: `okdef` defines `ok : case_type -> bool`; returns indices of bad rows or None on machinery failure.
    weight(row) balances shards by input size."""
    if weight is not None:
        # greedy balance: sort by weight descending, assign to lightest shard, keep original indices
        idx = sorted(range(len(rows)), key=lambda i: -weight(rows[i]))
        k = max(1, min(nshards, len(rows)))
        bins = [[] for _ in range(k)]
        load = [0] * k
        for i in idx:
            j = load.index(min(load))
            bins[j].append(i)
            load[j] += weight(rows[i]) + 50
        bins = [sorted(b) for b in bins if b]
    else:
        bins = [list(range(st, st + len(sh))) for st, sh in shards(rows, nshards)]
    texts = []
    for b in bins:
        cases = glist(gcase(rows[i]) for i in b)
        texts.append(header + "Definition cases : list (%s) := %s.\n%s\nDefinition M := Eval vm_compute in bad ok cases.\nPrint M.\n" % (case_type, cases, okdef))
    res = coq_eval_many(ctx, name, texts)
    bad = []
    for b, (ok, o) in zip(bins, res):
        m = parse_print(o, "M")
        if not ok or m is None:
            ctx.problem("correspondence", name + " evaluation", o[-800:])
            return None
        for i in zlist(m):
            bad.append(b[i])
    return sorted(bad)


def parse_print(out, ident):
    """value printed by `Print ident.` : text between 'ident =' and the following ': type' line"""
    m = re.search(r'^%s\s*=\s*(.*?)\n\s*:\s' % re.escape(ident), out, re.S | re.M)
    return " ".join(m.group(1).split()) if m else None


def zlist(text):
    """parse a printed list of Z/N/nat like '[1; 2; 3]' -> [1,2,3]"""
    text = text.strip()
    if text in ("[]", "nil"):
        return []
    return [int(x) for x in re.findall(r'-?\d+', text)]


# byte strings as Gallina: list of Z words, 7 bytes per word, length first (decoded by WH.lib.Wire)
def gbytes(b):
    if isinstance(b, str):
        b = bytes.fromhex(b)
    words = [str(len(b))]
    for i in range(0, len(b), 7):
        words.append(str(int.from_bytes(b[i:i + 7].ljust(7, b"\0"), "big")))
    return "[" + ";".join(words) + "]%uint63"


def gz(x):
    x = int(x)
    return "(%d)" % x if x < 0 else str(x)


def gbool(b):
    return "true" if b else "false"


def glist(items):
    return "[" + "; ".join(items) + "]"


def gopt(x, f=str):
    return "None" if x is None else "(Some %s)" % f(x)


# ------------------------------------------------------------------ steps 6+7: decide, evidence
def load_known():
    p = os.path.join(VERIF, "known_findings.json")
    if not os.path.exists(p):
        return {"open": [], "fixed": []}
    return json.load(open(p))


def finish(ctx):
    known = load_known()
    open_keys = {(k["property"], k["key"]): k for k in known.get("open", [])}
    violations = []
    printed_known = set()
    for pr in ctx.problems:
        k = (ctx.pid, pr.get("key"))
        if pr.get("key") and k in open_keys and pr["concrete"]:
            if k not in printed_known:
                print("KNOWN-FINDING: property=%s %s" % (ctx.pid, open_keys[k]["what"]), flush=True)
                printed_known.add(k)
            continue
        violations.append(pr)
    # a broken tie that is fully explained by... nothing: every non-known problem is a violation
    rc = 0
    if violations:
        rc = 1
        concrete = [v for v in violations if v["concrete"]]
        rp = os.path.join(BUILD, "replay", "%s_%s_%d.json" % (ctx.pid, ctx.tier, ctx.seed))
        body = {"property": ctx.pid, "seed": ctx.seed, "tier": ctx.tier,
                "broken": [dict(kind=v["kind"], name=v["name"], detail=v["detail"]) for v in violations],
                "failing_inputs": [v["replay"] for v in concrete if v.get("replay") is not None][:20]}
        json.dump(body, open(rp, "w"), indent=1, default=str)
        if concrete:
            print("VIOLATION property=%s replay=%s" % (ctx.pid, rp), flush=True)
        else:
            print("VIOLATION property=%s replay=%s no-failing-input-found" % (ctx.pid, rp), flush=True)
    write_evidence(ctx, len(violations))
    return rc


def write_evidence(ctx, nviol):
    cov = dict(ctx.cov)
    cov.setdefault("obligations", 0)
    cov.setdefault("discharged", 0)
    cov.setdefault("checker_cmd", "cd /verif/coq && make")
    cov["trusted_base"] = ctx.trusted
    cov["evaluations"] = ctx.evaluations
    cov["distinct_nontrivial"] = ctx.distinct
    cov["rule"] = ctx.rule
    cov["samples"] = ctx.samples[:8] if ctx.samples else ["(none)"]
    cov["problems"] = [dict(kind=p["kind"], name=p["name"], detail=str(p["detail"])[:400], key=p.get("key")) for p in ctx.problems][:30]
    ev = {
        "property_id": ctx.pid, "tier": ctx.tier, "seed": ctx.seed, "level": "proof",
        "coverage": cov, "assumptions": ctx.assumptions, "wall_s": round(time.time() - ctx.t0, 2),
        "violations": nviol,
    }
    p = os.path.join(ALT or VERIF, "evidence", ctx.pid + ".json")  # runs against another tree never touch /verif/evidence
    os.makedirs(os.path.dirname(p), exist_ok=True)
    json.dump(ev, open(p + ".tmp", "w"), indent=1, default=str)
    os.replace(p + ".tmp", p)


class SplitMix:
    def __init__(self, seed):
        self.s = seed & 0xFFFFFFFFFFFFFFFF

    def next(self):
        self.s = (self.s + 0x9E3779B97F4A7C15) & 0xFFFFFFFFFFFFFFFF
        z = self.s
        z = ((z ^ (z >> 30)) * 0xBF58476D1CE4E5B9) & 0xFFFFFFFFFFFFFFFF
        z = ((z ^ (z >> 27)) * 0x94D049BB133111EB) & 0xFFFFFFFFFFFFFFFF
        return z ^ (z >> 31)

    def below(self, n):
        return self.next() % n
